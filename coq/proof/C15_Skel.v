(* Structural obligations on the code as it is now (regenerated gen/Gen_C15.v): model/C15_Gc.v
   was written against exactly these skeletons.  A change of a comparison, of the position of a
   storage call, of a lock (gcSafePointLock around load..save of UpdateGCSafePoint, serviceSafePointLock around
   UpdateServiceGCSafePoint), of the service id check (checkServiceID in Save/RemoveServiceGCSafePoint), or a
   new writer of the safe point keys breaks a `reflexivity` here. *)
From PDV Require Import lib.Skel gen.Gen_C15.

Lemma gc_worker_id_ok : gc_worker_id =
  "gc_worker".
Proof. reflexivity. Qed.

Lemma gc_path_ok : gc_path =
  "gc".
Proof. reflexivity. Qed.

Lemma skel_SaveGCSafePoint_ok : skel_SaveGCSafePoint =
  [Call "Save"; Ret].
Proof. reflexivity. Qed.

Lemma skel_LoadGCSafePoint_ok : skel_LoadGCSafePoint =
  [Call "Join"; Call "Load"; IfE "v3 != nil" [Ret] []; IfE "v2 == """"" [Ret] []; Call "ParseUint"; IfE "v3 != nil" [Ret] []; Ret].
Proof. reflexivity. Qed.

Lemma skel_SaveServiceGCSafePoint_ok : skel_SaveServiceGCSafePoint =
  [IfE "v1.ServiceID == """"" [Ret] []; Call "checkServiceID"; IfE "v2 != nil" [Ret] []; IfE "v1.ServiceID == gcWorkerServiceSafePointID && v1.ExpiredAt != math.MaxInt64" [Ret] []; Call "Join"; Call "Marshal"; IfE "v2 != nil" [Ret] []; Call "Save"; Ret].
Proof. reflexivity. Qed.

Lemma skel_RemoveServiceGCSafePoint_ok : skel_RemoveServiceGCSafePoint =
  [IfE "v1 == gcWorkerServiceSafePointID" [Ret] []; Call "checkServiceID"; IfE "v2 != nil" [Ret] []; Call "Join"; Call "Remove"; Ret].
Proof. reflexivity. Qed.

Lemma skel_initServiceGCSafePointForGCWorker_ok : skel_initServiceGCSafePointForGCWorker =
  [Call "SaveServiceGCSafePoint"; IfE "v3 != nil" [Ret] []; Ret].
Proof. reflexivity. Qed.

Lemma skel_LoadMinServiceGCSafePoint_ok : skel_LoadMinServiceGCSafePoint =
  [Call "Join"; Call "LoadRange"; Assign "v6" ":= v0.LoadRange(v2, v3, 0)"; IfE "v6 != nil" [Ret] []; IfE "len(v4) == 0" [Call "initServiceGCSafePointForGCWorker"; Ret] []; Assign "v7" ":= false"; Assign "v8" ":= &ServiceSafePoint{SafePoint: math.MaxUint64}"; ForE [Assign "v11" ":= &ServiceSafePoint{}"; Call "Unmarshal"; Assign "v6" ":= json.Unmarshal([]byte(v5[v9]), v11)"; IfE "v6 != nil" [Ret] []; IfE "v11.ServiceID == gcWorkerServiceSafePointID" [Assign "v7" "= true"; IfE "v11.ExpiredAt != math.MaxInt64" [Assign "v11.ExpiredAt" "= math.MaxInt64"; Call "SaveServiceGCSafePoint"; Assign "v6" "= v0.SaveServiceGCSafePoint(v11)"; IfE "v6 != nil" [Ret] []] []] []; IfE "v11.ExpiredAt < v1.Unix()" [Call "Remove"] []; IfE "v11.SafePoint < v8.SafePoint" [Assign "v8" "= v11"] []]; IfE "v8.SafePoint == math.MaxUint64" [Call "initServiceGCSafePointForGCWorker"; Ret] []; IfE "!v7" [Call "initServiceGCSafePointForGCWorker"; Ret] []; Ret].
Proof. reflexivity. Qed.

Lemma skel_checkServiceID_ok : skel_checkServiceID =
  [Call "Contains"; IfE "strings.Contains(v0, ""/"") || v0 == ""."" || v0 == ""..""" [Ret] []; Ret].
Proof. reflexivity. Qed.

Lemma skel_GetGCSafePoint_ok : skel_GetGCSafePoint =
  [IfE "!v0.isLocalRequest(v3)" [Assign "v4" ":= v0.getDelegateClient(v1, v3)"; Assign "v5" ":= v0.getDelegateClient(v1, v3)"; IfE "v5 != nil" [Ret] []; Assign "v1" "= grpcutil.ResetForwardContext(v1)"; Ret] []; Call "validateRequest"; Assign "v5" ":= v0.validateRequest(v2.GetHeader())"; IfE "v5 != nil" [Ret] []; Call "GetRaftCluster"; IfE "v6 == nil" [Ret] []; Call "LoadGCSafePoint"; Assign "v5" ":= v0.storage.LoadGCSafePoint()"; IfE "v5 != nil" [Ret] []; Ret].
Proof. reflexivity. Qed.

Lemma skel_UpdateGCSafePoint_ok : skel_UpdateGCSafePoint =
  [IfE "!v0.isLocalRequest(v3)" [Assign "v4" ":= v0.getDelegateClient(v1, v3)"; Assign "v5" ":= v0.getDelegateClient(v1, v3)"; IfE "v5 != nil" [Ret] []; Assign "v1" "= grpcutil.ResetForwardContext(v1)"; Ret] []; Call "validateRequest"; Assign "v5" ":= v0.validateRequest(v2.GetHeader())"; IfE "v5 != nil" [Ret] []; Call "GetRaftCluster"; IfE "v6 == nil" [Ret] []; Lock "v0.gcSafePointLock"; DeferUnlock "v0.gcSafePointLock"; Call "LoadGCSafePoint"; Assign "v5" ":= v0.storage.LoadGCSafePoint()"; IfE "v5 != nil" [Ret] []; Assign "v8" ":= v2.SafePoint"; IfE "v8 > v7" [Call "saveGCSafePointAsLeader"; Assign "v5" ":= v0.saveGCSafePointAsLeader(v7, v8)"; IfE "v5 != nil" [Ret] []] [IfE "v8 < v7" [Assign "v8" "= v7"] []]; Ret].
Proof. reflexivity. Qed.

Lemma skel_UpdateServiceGCSafePoint_ok : skel_UpdateServiceGCSafePoint =
  [Lock "v0.serviceSafePointLock"; DeferUnlock "v0.serviceSafePointLock"; IfE "!v0.isLocalRequest(v3)" [Assign "v4" ":= v0.getDelegateClient(v1, v3)"; Assign "v5" ":= v0.getDelegateClient(v1, v3)"; IfE "v5 != nil" [Ret] []; Assign "v1" "= grpcutil.ResetForwardContext(v1)"; Ret] []; Call "validateRequest"; Assign "v5" ":= v0.validateRequest(v2.GetHeader())"; IfE "v5 != nil" [Ret] []; Call "GetRaftCluster"; IfE "v6 == nil" [Ret] []; IfE "v2.TTL <= 0" [Call "RemoveServiceGCSafePoint"; Assign "v5" ":= v0.storage.RemoveServiceGCSafePoint(string(v2.ServiceId))"; IfE "v5 != nil" [Ret] []] []; Call "HandleTSORequest"; Assign "v5" ":= v0.tsoAllocatorManager.HandleTSORequest(tso.GlobalDCLocation, 1)"; IfE "v5 != nil" [Ret] []; Call "LoadMinServiceGCSafePoint"; Assign "v9" ":= v0.storage.LoadMinServiceGCSafePoint(v8)"; Assign "v5" ":= v0.storage.LoadMinServiceGCSafePoint(v8)"; IfE "v5 != nil" [Ret] []; IfE "v2.TTL > 0 && v2.SafePoint >= v9.SafePoint" [Assign "v10" ":= &core.ServiceSafePoint{ ServiceID: string(v2.ServiceId), ExpiredAt: v8.Unix() + v2.TTL, SafePoint: v2.SafePoint, }"; IfE "math.MaxInt64-v8.Unix() <= v2.TTL" [Assign "v10.ExpiredAt" "= math.MaxInt64"] []; Call "SaveServiceGCSafePoint"; Assign "v5" ":= v0.storage.SaveServiceGCSafePoint(v10)"; IfE "v5 != nil" [Ret] []; IfE "string(v2.ServiceId) == v9.ServiceID" [Call "LoadMinServiceGCSafePoint"; Assign "v9" "= v0.storage.LoadMinServiceGCSafePoint(v8)"; Assign "v5" "= v0.storage.LoadMinServiceGCSafePoint(v8)"; IfE "v5 != nil" [Ret] []] []] []; Ret].
Proof. reflexivity. Qed.

Lemma skel_saveGCSafePointAsLeader_ok : skel_saveGCSafePointAsLeader =
  [Call "Compare"; Assign "v4" ":= clientv3.Compare(clientv3.CreateRevision(v3), ""="", 0)"; IfE "v1 != 0" [Call "Compare"; Assign "v4" "= clientv3.Compare(clientv3.Value(v3), ""="", core.EncodeGCSafePoint(v1))"] []; Call "GetLeadership"; Call "LeaderTxn"; Call "OpPut"; Call "Then"; Call "Commit"; IfE "v6 != nil" [Ret] []; IfE "!v5.Succeeded" [Ret] []; Ret].
Proof. reflexivity. Qed.

Lemma gc_save_cmps_ok : gc_save_cmps =
  ["clientv3.CreateRevision(v3) = 0"; "clientv3.Value(v3) = core.EncodeGCSafePoint(v1)"].
Proof. reflexivity. Qed.

Lemma skel_api_List_ok : skel_api_List =
  [Call "LoadGCSafePoint"; IfE "" [Ret] []; Call "GetAllServiceGCSafePoints"; IfE "" [Ret] []].
Proof. reflexivity. Qed.

Lemma skel_api_Delete_ok : skel_api_Delete =
  [Call "RemoveServiceGCSafePoint"; IfE "" [Ret] []].
Proof. reflexivity. Qed.

Lemma save_gc_sites_ok : save_gc_sites =
  [].
Proof. reflexivity. Qed.

Lemma save_service_sites_ok : save_service_sites =
  ["server/core/storage.go:LoadMinServiceGCSafePoint"; "server/core/storage.go:initServiceGCSafePointForGCWorker"; "server/grpc_service.go:UpdateServiceGCSafePoint"].
Proof. reflexivity. Qed.

Lemma remove_service_sites_ok : remove_service_sites =
  ["server/api/service_gc_safepoint.go:Delete"; "server/grpc_service.go:UpdateServiceGCSafePoint"].
Proof. reflexivity. Qed.

Lemma skel_etcdkv_Save_ok : skel_etcdkv_Save =
  [Call "NewSlowLogTxn"; Call "OpPut"; Call "Then"; Call "Commit"; IfE "v5 != nil" [Assign "v6" ":= errs.ErrEtcdKVPut.Wrap(v5).GenWithStackByCause()"; Ret] []; IfE "!v4.Succeeded" [Ret] []; Ret].
Proof. reflexivity. Qed.

Lemma skel_etcdkv_Remove_ok : skel_etcdkv_Remove =
  [Call "NewSlowLogTxn"; Call "OpDelete"; Call "Then"; Call "Commit"; Assign "v4" ":= v2.Then(clientv3.OpDelete(v1)).Commit()"; IfE "v4 != nil" [Assign "v4" "= errs.ErrEtcdKVDelete.Wrap(v4).GenWithStackByCause()"; Ret] []; IfE "!v3.Succeeded" [Ret] []; Ret].
Proof. reflexivity. Qed.
