(* C13 — Initialize repairs the storage (model/C13_Rules.v, `load_rules` / `load_repairs` / `initialize`):
   whatever was written below rules/ (any sorted key -> value map: garbage, rules that adjustRule refuses,
   rules stored under a key that is not their own, several records claiming one key), after a successful
   Initialize the storage holds exactly the rules that are served, each under its own key.
   Invariant of loadRules' scan over the processed prefix of the storage [scan_inv]; effect of the repairs
   (saves, then the deletions that do not hit a key just rewritten) pointwise in the key [repaired_get]. *)
From Coq Require Import String Permutation Sorting.Sorted.
From PDV Require Import lib.Base lib.C12_Order lib.C13_Map gen.Gen_C13 model.C13_Rules
  proof.C13_RulesProof proof.C13_UpdateProof proof.C13_HistoryProof.
Local Open Scope list_scope.

(* ---------- equality tests on keys ---------- *)
Lemma pair_eqb_refl k : pair_eqb k k = true.
Proof. apply pair_eqb_eq. reflexivity. Qed.

Lemma pair_eqb_sym a b : pair_eqb a b = pair_eqb b a.
Proof.
  destruct (pair_eqb a b) eqn:E1, (pair_eqb b a) eqn:E2; try reflexivity.
  - apply pair_eqb_eq in E1. subst. rewrite pair_eqb_refl in E2. discriminate.
  - apply pair_eqb_eq in E2. subst. rewrite pair_eqb_refl in E1. discriminate.
Qed.

Lemma keqb_pair a b : keqb pair_cmp a b = pair_eqb a b.
Proof.
  unfold keqb. destruct (pair_cmp a b) eqn:E.
  - apply pair_cmp_eq in E. subst. symmetry. apply pair_eqb_refl.
  - destruct (pair_eqb a b) eqn:E2; [|reflexivity]. apply pair_eqb_eq in E2. subst.
    rewrite (g_refl _ good_pair) in E. discriminate.
  - destruct (pair_eqb a b) eqn:E2; [|reflexivity]. apply pair_eqb_eq in E2. subst.
    rewrite (g_refl _ good_pair) in E. discriminate.
Qed.

(* ---------- the two repair passes on a sorted rule map ---------- *)
Definition memk (k : id * id) (l : list (id * id)) : bool := existsb (pair_eqb k) l.
Definition lastsave (k : id * id) (l : list rule) : option rule := find (fun r => pair_eqb (rkey r) k) (rev l).

Lemma find_app {A} (f : A -> bool) l1 l2 :
  find f (l1 ++ l2) = match find f l1 with Some x => Some x | None => find f l2 end.
Proof. induction l1 as [|a l1 IH]; [reflexivity|]. cbn. destruct (f a); [reflexivity|exact IH]. Qed.

Lemma lastsave_snoc k l r : lastsave k (l ++ [r]) = if pair_eqb (rkey r) k then Some r else lastsave k l.
Proof. unfold lastsave. rewrite rev_app_distr. reflexivity. Qed.

Lemma lastsave_cons k r l :
  lastsave k (r :: l) = match lastsave k l with Some x => Some x | None => if pair_eqb (rkey r) k then Some r else None end.
Proof. unfold lastsave. cbn [rev]. rewrite find_app. cbn. destruct (pair_eqb (rkey r) k); reflexivity. Qed.

Lemma lastsave_none k l : lastsave k l = None <-> existsb (fun r => pair_eqb k (rkey r)) l = false.
Proof.
  induction l as [|r l IH]; [split; reflexivity|]. rewrite lastsave_cons. cbn [existsb]. rewrite (pair_eqb_sym k (rkey r)).
  destruct (lastsave k l) eqn:E.
  - split; [discriminate|]. intros H. apply orb_false_iff in H as [_ H]. apply IH in H. discriminate.
  - destruct IH as [IH _]. rewrite (IH eq_refl), orb_false_r. destruct (pair_eqb (rkey r) k); split; congruence.
Qed.

Lemma memk_snoc k l k0 : memk k (l ++ [k0]) = memk k l || pair_eqb k k0.
Proof. unfold memk. rewrite existsb_app. cbn. rewrite orb_false_r. reflexivity. Qed.

Definition put_rules (l : list rule) (m : list ((id * id) * sval)) : list ((id * id) * sval) :=
  fold_left (fun m r => mset pair_cmp (rkey r) (sv r) m) l m.
Definition del_keys (l : list (id * id)) (m : list ((id * id) * sval)) : list ((id * id) * sval) :=
  fold_left (fun m k => mdel pair_cmp k m) l m.

Lemma put_rules_sorted l : forall m, psorted m -> psorted (put_rules l m).
Proof.
  induction l as [|r l IH]; intros m S; [exact S|]. cbn [put_rules fold_left]. apply IH.
  apply (aset_sorted pair_cmp good_pair pair_cmp_eq); exact S.
Qed.
Lemma del_keys_sorted l : forall m, psorted m -> psorted (del_keys l m).
Proof.
  induction l as [|r l IH]; intros m S; [exact S|]. cbn [del_keys fold_left]. apply IH.
  apply (adel_sorted pair_cmp); exact S.
Qed.

Lemma aget_put_rules l : forall m k, psorted m ->
  mget pair_cmp k (put_rules l m) = match lastsave k l with Some r => Some (sv r) | None => mget pair_cmp k m end.
Proof.
  induction l as [|r l IH]; intros m k S; [reflexivity|]. cbn [put_rules fold_left].
  change (fold_left _ l ?x) with (put_rules l x).
  rewrite IH by (apply (aset_sorted pair_cmp good_pair pair_cmp_eq); exact S).
  rewrite lastsave_cons. destruct (lastsave k l); [reflexivity|].
  rewrite (aget_aset pair_cmp pair_cmp_eq) by exact S. rewrite keqb_pair, (pair_eqb_sym k (rkey r)).
  destruct (pair_eqb (rkey r) k); reflexivity.
Qed.

Lemma aget_del_keys l : forall m k, psorted m ->
  mget pair_cmp k (del_keys l m) = if memk k l then None else mget pair_cmp k m.
Proof.
  induction l as [|k0 l IH]; intros m k S; [reflexivity|]. cbn [del_keys fold_left].
  change (fold_left _ l ?x) with (del_keys l x).
  rewrite IH by (apply (adel_sorted pair_cmp); exact S). unfold memk. cbn [existsb]. fold (memk k l).
  destruct (memk k l); [rewrite orb_true_r; reflexivity|]. rewrite orb_false_r.
  rewrite (aget_adel pair_cmp pair_cmp_eq) by exact S. rewrite keqb_pair. reflexivity.
Qed.

Lemma fold_put_storage l : forall s,
  fold_left (fun s (r : rule) => apply_rule_write (rkey r, Some r) s) l s = Storage (put_rules l (s_rules s)) (s_groups s).
Proof.
  induction l as [|r l IH]; intros s; [destruct s; reflexivity|]. cbn [fold_left put_rules]. rewrite IH. reflexivity.
Qed.
Lemma fold_del_storage l : forall s,
  fold_left (fun s (k : id * id) => apply_rule_write (k, None) s) l s = Storage (del_keys l (s_rules s)) (s_groups s).
Proof.
  induction l as [|r l IH]; intros s; [destruct s; reflexivity|]. cbn [fold_left del_keys]. rewrite IH. reflexivity.
Qed.

Lemma memk_filter k (f : id * id -> bool) l : memk k (filter f l) = memk k l && f k.
Proof.
  induction l as [|x l IH]; [reflexivity|]. cbn [filter]. destruct (f x) eqn:Ef.
  - change (memk k (x :: filter f l)) with (pair_eqb k x || memk k (filter f l)).
    change (memk k (x :: l)) with (pair_eqb k x || memk k l). rewrite IH.
    destruct (pair_eqb k x) eqn:E; cbn [orb]; [|reflexivity]. apply pair_eqb_eq in E. subst. rewrite Ef. reflexivity.
  - change (memk k (x :: l)) with (pair_eqb k x || memk k l). rewrite IH.
    destruct (pair_eqb k x) eqn:E; cbn [orb]; [|reflexivity]. apply pair_eqb_eq in E. subst. rewrite Ef, andb_false_r. reflexivity.
Qed.

(* ---------- the scan of loadRules ---------- *)
Definition lstep (acc : loadacc) (kv : (id * id) * sval) : loadacc :=
  match snd kv with
  | SVGarbage => LoadAcc (la_rules acc) (la_save acc) (la_delete acc ++ [fst kv])
  | SVRule r0 =>
      match adjust_rule r0 None with
      | None => LoadAcc (la_rules acc) (la_save acc) (la_delete acc ++ [fst kv])
      | Some r =>
          match rget (rkey r) (la_rules acc) with
          | Some _ => LoadAcc (la_rules acc) (la_save acc) (la_delete acc ++ [fst kv])
          | None =>
              if pair_eqb (fst kv) (rkey r)
              then LoadAcc (mset pair_cmp (rkey r) r (la_rules acc)) (la_save acc) (la_delete acc)
              else LoadAcc (mset pair_cmp (rkey r) r (la_rules acc)) (la_save acc ++ [r]) (la_delete acc ++ [fst kv])
          end
      end
  end.

Lemma load_rules_fold s : load_rules s = fold_left lstep (s_rules s) (LoadAcc [] [] []).
Proof. reflexivity. Qed.

(* what is known about key k after the records `done` have been scanned *)
Definition key_ok (acc : loadacc) (done : list ((id * id) * sval)) (k : id * id) : Prop :=
  match lastsave k (la_save acc) with
  | Some r => mget pair_cmp k (la_rules acc) = Some r
  | None =>
      if memk k (la_delete acc) then mget pair_cmp k (la_rules acc) = None
      else match mget pair_cmp k done with
           | None => mget pair_cmp k (la_rules acc) = None
           | Some v => exists r, v = SVRule r /\ mget pair_cmp k (la_rules acc) = Some r
           end
  end.

Record scan_inv (acc : loadacc) (done : list ((id * id) * sval)) : Prop := {
  si_sorted : psorted (la_rules acc);
  si_deleted : forall k, memk k (la_delete acc) = true -> mget pair_cmp k done <> None;
  si_key : forall k, key_ok acc done k
}.

Lemma aget_snoc {V} (done : list ((id * id) * V)) k0 (v0 : V) k :
  Forall (fun x => klt pair_cmp (fst x) k0) done ->
  mget pair_cmp k (done ++ [(k0, v0)]) = if pair_eqb k k0 then Some v0 else mget pair_cmp k done.
Proof.
  induction done as [|[k1 v1] rest IH]; intros F.
  - cbn. rewrite <- keqb_pair. unfold keqb. destruct (pair_cmp k k0); reflexivity.
  - inversion F as [|? ? F1 F2]; subst. cbn [app aget fst]. cbn [fst] in F1. rewrite (IH F2).
    destruct (pair_cmp k k1) eqn:E; try reflexivity.
    apply pair_cmp_eq in E. subst k1.
    destruct (pair_eqb k k0) eqn:E2; [|reflexivity]. apply pair_eqb_eq in E2. subst k0.
    unfold klt in F1. rewrite (g_refl _ good_pair) in F1. discriminate.
Qed.

Lemma sorted_prefix_lt {V} (l1 : list ((id * id) * V)) x l2 :
  psorted (l1 ++ x :: l2) -> Forall (fun y => klt pair_cmp (fst y) (fst x)) l1.
Proof.
  induction l1 as [|a l1 IH]; intros S; [constructor|]. cbn in S. inversion S as [|? ? S' F]; subst.
  constructor; [|apply IH; exact S']. rewrite Forall_forall in F. apply (F x). apply in_or_app. right. left. reflexivity.
Qed.

(* a record that is only marked for deletion *)
Lemma scan_delete acc done k0 v0 :
  scan_inv acc done -> Forall (fun x => klt pair_cmp (fst x) k0) done -> mget pair_cmp k0 done = None ->
  scan_inv (LoadAcc (la_rules acc) (la_save acc) (la_delete acc ++ [k0])) (done ++ [(k0, v0)]).
Proof.
  intros [I1 I2 I3] F N. constructor; cbn [la_rules la_save la_delete].
  - exact I1.
  - intros k. rewrite memk_snoc, (aget_snoc done k0 v0 k F). destruct (pair_eqb k k0); [discriminate|].
    rewrite orb_false_r. apply I2.
  - intros k. specialize (I3 k). unfold key_ok in *. cbn [la_rules la_save la_delete].
    destruct (lastsave k (la_save acc)); [exact I3|].
    rewrite memk_snoc, (aget_snoc done k0 v0 k F). destruct (pair_eqb k k0) eqn:E.
    + apply pair_eqb_eq in E. subst k. rewrite orb_true_r.
      destruct (memk k0 (la_delete acc)) eqn:Em; [exact I3|]. rewrite N in I3. exact I3.
    + rewrite orb_false_r. exact I3.
Qed.

Lemma scan_step acc done k0 v0 :
  scan_inv acc done -> Forall (fun x => klt pair_cmp (fst x) k0) done -> mget pair_cmp k0 done = None ->
  scan_inv (lstep acc (k0, v0)) (done ++ [(k0, v0)]).
Proof.
  intros I F N. unfold lstep. cbn [fst snd].
  destruct v0 as [r0|]; [|apply scan_delete; assumption].
  destruct (adjust_rule r0 None) as [r|] eqn:Ea; [|apply scan_delete; assumption].
  destruct (adjust_rule_none r0 r Ea) as [-> _].
  destruct (rget (rkey r0) (la_rules acc)) eqn:Eg; [apply scan_delete; assumption|].
  unfold rget in Eg. destruct I as [I1 I2 I3].
  assert (Hset : forall k, mget pair_cmp k (mset pair_cmp (rkey r0) r0 (la_rules acc)) =
                           if pair_eqb k (rkey r0) then Some r0 else mget pair_cmp k (la_rules acc)).
  { intros k. rewrite (aget_aset pair_cmp pair_cmp_eq) by exact I1. rewrite keqb_pair. reflexivity. }
  assert (Nd : memk k0 (la_delete acc) = false).
  { destruct (memk k0 (la_delete acc)) eqn:E; [|reflexivity]. exfalso. apply (I2 k0 E). exact N. }
  destruct (pair_eqb k0 (rkey r0)) eqn:Ek.
  - (* served under its own key, in place *)
    apply pair_eqb_eq in Ek. subst k0. constructor; cbn [la_rules la_save la_delete].
    + apply (aset_sorted pair_cmp good_pair pair_cmp_eq); exact I1.
    + intros k Hk. rewrite (aget_snoc done (rkey r0) (SVRule r0) k F). destruct (pair_eqb k (rkey r0)); [discriminate|].
      apply I2; exact Hk.
    + intros k. specialize (I3 k). unfold key_ok in *. cbn [la_rules la_save la_delete]. rewrite Hset.
      rewrite (aget_snoc done (rkey r0) (SVRule r0) k F).
      destruct (pair_eqb k (rkey r0)) eqn:E.
      * apply pair_eqb_eq in E. subst k.
        destruct (lastsave (rkey r0) (la_save acc)); [rewrite Eg in I3; discriminate|].
        rewrite Nd. exists r0. split; reflexivity.
      * exact I3.
  - (* served under its own key, the record is moved there *)
    constructor; cbn [la_rules la_save la_delete].
    + apply (aset_sorted pair_cmp good_pair pair_cmp_eq); exact I1.
    + intros k. rewrite memk_snoc, (aget_snoc done k0 (SVRule r0) k F). destruct (pair_eqb k k0); [discriminate|].
      rewrite orb_false_r. apply I2.
    + intros k. specialize (I3 k). unfold key_ok in *. cbn [la_rules la_save la_delete]. rewrite Hset, lastsave_snoc.
      rewrite (pair_eqb_sym (rkey r0) k).
      destruct (pair_eqb k (rkey r0)) eqn:E; [reflexivity|].
      destruct (lastsave k (la_save acc)); [exact I3|].
      rewrite memk_snoc, (aget_snoc done k0 (SVRule r0) k F). destruct (pair_eqb k k0) eqn:E0.
      * apply pair_eqb_eq in E0. subst k. rewrite orb_true_r. rewrite Nd, N in I3. exact I3.
      * rewrite orb_false_r. exact I3.
Qed.

Lemma scan_all todo : forall done acc,
  psorted (done ++ todo) -> scan_inv acc done -> scan_inv (fold_left lstep todo acc) (done ++ todo).
Proof.
  induction todo as [|[k0 v0] todo IH]; intros done acc S I; [rewrite app_nil_r; exact I|].
  cbn [fold_left]. replace (done ++ (k0, v0) :: todo) with ((done ++ [(k0, v0)]) ++ todo) by (rewrite <- app_assoc; reflexivity).
  pose proof (sorted_prefix_lt done (k0, v0) todo S) as F. cbn [fst] in F.
  apply IH; [rewrite <- app_assoc; exact S|]. apply scan_step; [exact I|exact F|].
  destruct (mget pair_cmp k0 done) eqn:E; [|reflexivity]. apply (aget_In pair_cmp pair_cmp_eq) in E.
  rewrite Forall_forall in F. specialize (F _ E). cbn in F. unfold klt in F. rewrite (g_refl _ good_pair) in F. discriminate.
Qed.

Lemma load_rules_inv s : psorted (s_rules s) -> scan_inv (load_rules s) (s_rules s).
Proof.
  intros S. rewrite load_rules_fold. apply (scan_all (s_rules s) [] (LoadAcc [] [] [])); [exact S|].
  constructor; cbn; [constructor|discriminate|]. intros k. unfold key_ok. cbn. reflexivity.
Qed.

(* ---------- the storage after the repairs, key by key ---------- *)
Definition strip_sval (v : sval) : sval := match v with SVRule r => SVRule (strip r) | SVGarbage => SVGarbage end.

Lemma strip_sv r : strip_sval (sv r) = sv r.
Proof. unfold sv, strip_sval, strip. rewrite set_group_twice. reflexivity. Qed.

Lemma repaired_get s k : ssorted s ->
  option_map strip_sval (mget pair_cmp k (s_rules (snd (load_repairs s)))) =
  option_map sv (mget pair_cmp k (la_rules (load_rules s))).
Proof.
  intros [S1 S2]. pose proof (load_rules_inv s S1) as [I1 I2 I3]. specialize (I3 k).
  unfold load_repairs. cbn [snd]. rewrite fold_put_storage, fold_del_storage. cbn [s_rules].
  rewrite aget_del_keys by (apply put_rules_sorted; exact S1). rewrite aget_put_rules by exact S1.
  rewrite memk_filter. unfold key_ok in I3.
  destruct (lastsave k (la_save (load_rules s))) as [r|] eqn:El.
  - assert (Ex : existsb (fun r => pair_eqb k (rkey r)) (la_save (load_rules s)) = true).
    { destruct (existsb _ (la_save (load_rules s))) eqn:E; [reflexivity|]. apply lastsave_none in E. congruence. }
    rewrite Ex, andb_false_r, I3. cbn [option_map]. rewrite strip_sv. reflexivity.
  - apply lastsave_none in El. rewrite El, andb_true_r.
    destruct (memk k (la_delete (load_rules s))); [rewrite I3; reflexivity|].
    destruct (mget pair_cmp k (s_rules s)) as [v|]; [|rewrite I3; reflexivity].
    destruct I3 as [r [-> I3]]. rewrite I3. reflexivity.
Qed.

Lemma repaired_rules s : ssorted s ->
  map_vals strip_sval (s_rules (snd (load_repairs s))) = map_vals sv (la_rules (load_rules s)).
Proof.
  intros S. pose proof (load_repairs_sorted s S) as [S2 _]. pose proof (load_rules_inv s (proj1 S)) as [I1 _ _].
  apply (asorted_ext pair_cmp good_pair pair_cmp_eq).
  - apply (map_vals_asorted pair_cmp). exact S2.
  - apply (map_vals_asorted pair_cmp). exact I1.
  - intros k. unfold map_vals. rewrite !(aget_map_vals pair_cmp). apply repaired_get. exact S.
Qed.

(* ---------- Initialize ---------- *)
Lemma sv_set_group r g : sv (set_group r g) = sv r.
Proof. unfold sv. rewrite set_group_twice. reflexivity. Qed.

Lemma map_vals_sv_adjust (G : rule -> option group) (m : rmap) :
  map_vals sv (map (fun kr => (fst kr, set_group (snd kr) (G (snd kr)))) m) = map_vals sv m.
Proof.
  unfold map_vals. rewrite map_map. apply map_ext. intros [k r]. cbn [fst snd]. rewrite sv_set_group. reflexivity.
Qed.

Theorem initialize_repairs s mr m s' : ssorted s -> initialize s mr = (inl m, s') ->
  map_vals strip_sval (s_rules s') = map_vals sv (c_rules (m_conf m)).
Proof.
  intros S H. pose proof (repaired_rules s S) as R. unfold initialize in H.
  destruct (load_repairs s) as [acc s2] eqn:El. cbn [snd] in R.
  assert (Ea : acc = load_rules s) by (unfold load_repairs in El; inversion El; reflexivity). rewrite <- Ea in R.
  destruct (la_rules acc) as [|x rs] eqn:Er.
  - (* nothing valid was stored: the default rule is created and saved *)
    rewrite config_adjust_unfold in H. cbn zeta in H. cbn [c_rules c_groups] in H.
    destruct (build_rule_list _) as [e|rl]; inversion H; subst m s'. clear H. cbn [m_conf c_rules].
    unfold map_vals in *. cbn [map fst snd] in *. rewrite sv_set_group.
    destruct s2 as [sr sg]. cbn [s_rules] in R. destruct sr as [|y ys]; [|discriminate].
    cbn. unfold strip_sval, strip, sv. rewrite set_group_twice. reflexivity.
  - rewrite config_adjust_unfold in H. cbn zeta in H. cbn [c_rules c_groups] in H.
    destruct (build_rule_list _) as [e|rl]; inversion H; subst m s'. clear H. cbn [m_conf c_rules].
    rewrite R. symmetry. set (gs := fold_left add_default rs _).
    exact (map_vals_sv_adjust (fun r => gget (r_gid r) gs) (x :: rs)).
Qed.

(* in every reachable state (any history: storage faults, foreign writes of any content below rules/) *)
Theorem restart_repairs_storage_pf :
  forall ops mr st' o m,
    step (run_state step init_state ops) (ORestart mr) = (st', o) -> o_res o = ROk -> st_live st' = Some m ->
    map_vals strip_sval (s_rules (st_store st')) = map_vals sv (c_rules (m_conf m)).
Proof.
  intros ops mr st' o m Hstep _ Hl. pose proof (reachable_sorted ops) as S.
  set (st := run_state step init_state ops) in *. cbn [step] in Hstep.
  destruct (initialize (st_store st) mr) as [[m0|e] s1] eqn:Ei; inversion Hstep; subst; cbn [st_live] in Hl; [|discriminate].
  inversion Hl; subst m0. cbn [st_store]. eapply initialize_repairs; [exact S|exact Ei].
Qed.

(* records written by PD carry no group pointer (apply_rule_write strips it); when that holds of every stored
   rule the equality is literal *)
Definition groupless (m : list ((id * id) * sval)) : Prop := forall k v, In (k, v) m -> strip_sval v = v.

Lemma groupless_map_vals m : groupless m -> map_vals strip_sval m = m.
Proof.
  induction m as [|[k v] m IH]; intros G; [reflexivity|]. cbn. rewrite (G k v (or_introl eq_refl)).
  f_equal. apply IH. intros k' v' Hin. apply (G k' v'). right. exact Hin.
Qed.

Theorem restart_repairs_storage_literal_pf :
  forall ops mr st' o m,
    step (run_state step init_state ops) (ORestart mr) = (st', o) -> o_res o = ROk -> st_live st' = Some m ->
    groupless (s_rules (st_store st')) ->
    s_rules (st_store st') = map_vals sv (c_rules (m_conf m)).
Proof.
  intros ops mr st' o m H1 H2 H3 G. rewrite <- (groupless_map_vals _ G) at 1.
  eapply restart_repairs_storage_pf; eassumption.
Qed.
