(* C12 — Rule fitting partitions peers correctly and picks the best assignment.
   Statements only; proofs in proof/C12_FitProof.v, structural obligations in proof/C12_Skel.v.

   Quantification: all store sets (any labels, duplicated keys, empty values, exclusive labels), all
   regions (any number of peers, learners, any leader id incl. none / a learner, peers on unknown
   stores), all rule lists (any number of rules, the four roles and an unknown role, any Count >= 0,
   label constraints in/notIn/exists/notExists/unknown operator, any location labels).
   `fit_region` is the transcription of FitRegion (fitRule / enumPeers / compareBest /
   updateOrphanPeers); its tie to the Go code is proof/C12_Skel.v + the correspondence run.
   Outside the model: negative Count (rejected by adjustRule; the Go search then leaves a nil RuleFit),
   peers with equal ids (sort.Slice is unstable), non-ASCII labels (EqualFold is ASCII here). *)
From Coq Require Import String Permutation Sorting.Sorted.
From PDV Require Import lib.Base lib.C12_Order gen.Gen_C12 model.C12_Fit proof.C12_FitProof proof.C12_Skel.
Local Open Scope list_scope.

(* every peer in exactly one rule or in the orphan list; only into rules whose label constraints its
   store satisfies and whose role it can still be converted to; never more than Count; the role
   mismatch list and the isolation score are exact (rule_fit_ok) *)
Theorem C12_fit_partition :
  forall stores leader peers rules,
  exists fits orph,
    fit_region stores leader peers rules = (map Some fits, orph) /\
    length fits = length rules /\
    Permutation (concat (map rf_peers fits) ++ orph) (mk_fpeers stores leader peers) /\
    Forall2 rule_fit_ok rules fits.
Proof. exact fit_partition_pf. Qed.

(* the fit peers are exactly the region's peers *)
Theorem C12_fit_peers_are_region_peers :
  forall stores leader peers, Permutation (map fpid (mk_fpeers stores leader peers)) (map pid peers).
Proof. exact mk_fpeers_pids. Qed.

(* the backtracking search (pruning, shared best-so-far vector, selected flags) computes the
   specification: rule by rule the first lexicographic maximum over all k-subsets *)
Theorem C12_fit_imp_eq_spec :
  forall stores leader peers rules,
    fit_region stores leader peers rules =
    (map Some (fst (fit_region_spec stores leader peers rules)), snd (fit_region_spec stores leader peers rules)).
Proof. exact fit_region_eq_spec_pf. Qed.

(* no valid assignment is better under the documented order: rule by rule more peers, then fewer
   role mismatches, then higher isolation score (crf_documented_order), finally fewer orphans —
   i.e. CompareRegionFit never prefers any other valid assignment *)
Theorem C12_fit_optimal :
  forall stores leader peers rules,
  exists fits orph,
    fit_region stores leader peers rules = (map Some fits, orph) /\
    forall A, valid (mk_fpeers stores leader peers) rules [] A ->
      compare_region_fit (fits, orph)
        (fits_of rules A, unselected (mk_fpeers stores leader peers) (final_sel [] A)) <> Lt.
Proof. exact fit_optimal_pf. Qed.

Theorem C12_crf_documented_order :
  forall a b, compare_rule_fit a b = Gt <->
    (length (rf_peers a) > length (rf_peers b))%nat \/
    (length (rf_peers a) = length (rf_peers b) /\
     ((length (rf_diff a) < length (rf_diff b))%nat \/
      (length (rf_diff a) = length (rf_diff b) /\ (rf_score a > rf_score b)%Z))).
Proof. exact crf_gt_iff. Qed.

(* satisfied exactly when every rule is filled with matching roles and no orphan remains
   (and there is at least one rule: RegionFit.IsSatisfied is false for an empty rule list) *)
Theorem C12_satisfied_iff :
  forall stores leader peers rules,
  exists fits orph,
    fit_region stores leader peers rules = (map Some fits, orph) /\
    (is_satisfied rules (fits, orph) = true <->
     rules <> [] /\
     Forall2 (fun r f => length (rf_peers f) = rcount r /\
                         forall p, In p (rf_peers f) -> match_role_strict p (rrole r) = true) rules fits /\
     orph = []).
Proof. exact satisfied_iff_pf. Qed.

(* CompareRegionFit is the comparison of a total preorder on the fits of one rule list *)
Theorem C12_compare_region_fit_total_preorder :
  forall n,
  let D := fun f : list rulefit * list fpeer => length (fst f) = n in
  (forall a b, D a -> D b -> compare_region_fit b a = CompOpp (compare_region_fit a b)) /\
  (forall a b d x, D a -> D b -> D d -> compare_region_fit a b = x -> compare_region_fit b d = x -> compare_region_fit a d = x) /\
  (forall a b d, D a -> D b -> D d -> compare_region_fit a b = Eq -> compare_region_fit a d = compare_region_fit b d).
Proof. exact compare_region_fit_preorder_pf. Qed.

(* remark, outside the statement (CompareRegionFit is only called on fits of the same rule list): on
   fits of different length it compares the common prefix and is then not transitive *)
Example C12_compare_prefix_not_transitive :
  let hi := RF [FPeer 0 1 false false None] [] 0 in
  let lo := RF [] [] 0 in
  let a := ([hi; hi], @nil fpeer) in let b := ([hi], @nil fpeer) in let c := ([hi; lo], @nil fpeer) in
  compare_region_fit c b = Eq /\ compare_region_fit b a = Eq /\ compare_region_fit c a = Lt.
Proof. vm_compute. repeat split. Qed.

(* ---- assumptions removed or quantified ---- *)
(* sort.Slice is unstable: whatever order it leaves among peers of equal id, the answer is fit_region of that
   arrangement of the region's peers — and every theorem here holds for every arrangement *)
Theorem C12_unstable_sort_covered :
  forall stores leader ps ps' rules, Permutation ps ps' -> StronglySorted pid_le ps' ->
    fit_imp stores (mk_fpeers_from 0 stores leader ps') rules = fit_region stores leader ps' rules
    /\ Permutation (map pid ps') (map pid ps).
Proof. exact unstable_sort_covered. Qed.

(* isolation scores: 0 <= score <= C(n,2) * base^(levels-1); below 2^53 (exact in float64, every partial sum
   included) for <= 6 peers in a rule and <= 7 location labels *)
Theorem C12_isolation_score_bounds :
  forall ps labels, (0 <= isolation_score ps labels
     <= Z.of_nat (length ps * (length ps - 1) / 2) * replicaBaseScore ^ (Z.of_nat (length labels) - 1))%Z.
Proof. exact isolation_score_bounds. Qed.
Theorem C12_isolation_score_exact_in_float64 :
  forall ps labels, (length ps <= 6)%nat -> (length labels <= 7)%nat -> (0 <= isolation_score ps labels < 2 ^ 53)%Z.
Proof. exact isolation_score_exact_in_float64. Qed.

(* the brute-force oracle of the monitor (every sub-sequence of the free candidates of size <= Count, rule by
   rule) enumerates exactly the valid assignments, and FitRegion's answer always passes it *)
Theorem C12_all_valid_spec :
  forall peers rules sel A, In A (all_valid peers rules sel) <-> valid peers rules sel A.
Proof. exact all_valid_spec. Qed.
Theorem C12_fit_region_passes_oracle :
  forall stores leader ps rules,
  exists fits orph, fit_region stores leader ps rules = (map Some fits, orph) /\
                    not_worse_than_any (mk_fpeers stores leader ps) rules (fits, orph) = true.
Proof. exact fit_region_passes_oracle. Qed.

(* non-vacuity: 3 zones, a leader rule pinned to z1, two voters spread over zones, a learner rule;
   5 peers: the search places 4 (first maximum {11,13} of the equally isolated voter pairs) and leaves one orphan; a valid assignment exists and is not better *)
Definition ex_stores := [Store 1 [("zone","z1")]; Store 2 [("zone","z1")]; Store 3 [("zone","z2")];
                         Store 4 [("zone","z3")]; Store 5 [("zone","z3"); ("engine","tiflash")]]%string.
Definition ex_rules := [Rule Leader 1 [Constr "zone" OpIn ["z1"]] []; Rule Voter 2 [] ["zone"];
                        Rule Learner 1 [Constr "engine" OpIn ["tiflash"]] []]%string.
Definition ex_peers := [Peer 15 5 true; Peer 11 1 false; Peer 12 2 false; Peer 13 3 false; Peer 14 4 false].
Example C12_nonvacuous :
  let '(bs, orph) := fit_region ex_stores 12 ex_peers ex_rules in
  map (option_map rf_obs) bs = [Some ([12], [], 0); Some ([11; 13], [], 1); Some ([15], [], 0)]%Z
  /\ map fpid orph = [14]%Z
  /\ (exists A, valid (mk_fpeers ex_stores 12 ex_peers) ex_rules [] A /\ length (concat A) = 2%nat).
Proof.
  vm_compute. split; [reflexivity|]. split; [reflexivity|].
  exists [[]; [FPeer 2 13 false false (Some (Store 3 [("zone","z2")]%string)); FPeer 3 14 false false (Some (Store 4 [("zone","z3")]%string))]; []].
  split; [|reflexivity]. cbn [valid].
  split; [apply sl_nil|]. split; [repeat constructor|].
  split; [vm_compute; apply sl_skip, sl_skip, sl_take, sl_take, sl_nil|]. split; [repeat constructor|].
  split; [apply sl_nil|]. split; [repeat constructor|exact I].
Qed.

Print Assumptions C12_fit_partition.
Print Assumptions C12_fit_peers_are_region_peers.
Print Assumptions C12_fit_imp_eq_spec.
Print Assumptions C12_fit_optimal.
Print Assumptions C12_crf_documented_order.
Print Assumptions C12_satisfied_iff.
Print Assumptions C12_compare_region_fit_total_preorder.
Print Assumptions C12_unstable_sort_covered.
Print Assumptions C12_isolation_score_bounds.
Print Assumptions C12_isolation_score_exact_in_float64.
Print Assumptions C12_all_valid_spec.
Print Assumptions C12_fit_region_passes_oracle.
