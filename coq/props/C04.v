(* C04 — Allocated ids are unique forever.  Statements only; proofs in proof/C04_IdAllocProof.v.
   Quantification: every label list `ls` is one interleaving/history: any number of allocator
   instances (LNew), leader switches (LSetLeader), crashes (an instance that is never scheduled
   again), lost races (another instance's LTxn between LGet and LTxn) and storage faults
   (ErrNotApplied, ErrApplied).  Hypothesis recorded in DESIGN.md: stored end + allocStep < 2^64. *)
From PDV Require Import lib.Base gen.Gen_C04 model.C04_IdAlloc proof.C04_IdAllocProof proof.C04_Skel.
Local Open Scope Z_scope.

Theorem C04_ids_nodup :
  forall ls, NoDup (map id_of (issued (exec step init ls))).
Proof. exact ids_nodup_pf. Qed.

(* issued is newest-first: every earlier id of the same instance is smaller *)
Theorem C04_ids_increasing_per_instance :
  forall ls, decr_per_inst (issued (exec step init ls)).
Proof. exact ids_increasing_pf. Qed.

(* every id is <= the bound that was stored in etcd at the moment it was returned *)
Theorem C04_id_le_persisted_end :
  forall ls u, In u (issued (exec step init ls)) -> id_of u <= stored_then u.
Proof. exact id_le_persisted_pf. Qed.

Theorem C04_stored_end_monotone :
  forall s l s', step s l = Some s' -> stored s <= stored s'.
Proof. exact stored_mono_step. Qed.

(* not the recorded leader, or lost the race for the window: the txn changes neither the
   store nor the instance window, whatever the outcome reported to the client *)
Theorem C04_loser_cannot_extend :
  forall s i o s' x snap k,
    step s (LTxn i o) = Some s' -> insts s i = Some x -> pending x = Some (snap, k) ->
    (leader s <> Some (mem x) \/ alloc_id s <> snap) ->
    alloc_id s' = alloc_id s /\ window_of s' i = window_of s i /\ issued s' = issued s.
Proof. exact loser_cannot_extend_pf. Qed.

(* non-vacuity: two instances, leader switch, a lost race, an ErrApplied, five ids issued *)
Example C04_nonvacuous :
  let ls := [LNew 1; LNew 2; LSetLeader (Some 1); LGet 0 FromAlloc; LTxn 0 Ok; LAllocFast 0;
             LGet 1 FromRebase; LSetLeader (Some 2); LGet 0 FromRebase; LTxn 1 Ok; LTxn 0 Ok;
             LAllocFast 1; LGet 1 FromRebase; LTxn 1 ErrApplied; LGet 1 FromRebase; LTxn 1 Ok; LAllocFast 1; LAllocFast 0] in
  map id_of (issued (exec step init ls)) = [3; 3001; 1001; 2; 1].
Proof. vm_compute. reflexivity. Qed.

Print Assumptions C04_ids_nodup.
Print Assumptions C04_ids_increasing_per_instance.
Print Assumptions C04_id_le_persisted_end.
Print Assumptions C04_stored_end_monotone.
Print Assumptions C04_loser_cannot_extend.
