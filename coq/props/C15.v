(* C15 — GC safe points never move backwards.  Statements only; proofs in proof/C15_GcProof.v.
   The model mirrors the code after the two fix: commits in /repo
     "fix: serialize UpdateGCSafePoint's load-compare-save"                         (gcSafePointLock)
     "fix: reject service ids that are not a single path element in service GC safe points"  (checkServiceID)
     "fix: save the cluster GC safe point only as leader and only over the value it was compared with"  (saveGCSafePointAsLeader)

   Quantification.  Every label list `ls` is one history and one interleaving: any number of
   UpdateGCSafePoint request threads (LLoad t v ; LSave t o — the request's two storage operations, with
   the storage outcome Ok / ErrNotApplied / ErrApplied of the save; a request that finds the mutex taken is
   a disabled LLoad), GetGCSafePoint (LGet), UpdateServiceGCSafePoint (LSvc id ttl safepoint now — one
   label, it runs under serviceSafePointLock; `now` is an arbitrary input of every call, not even monotone,
   so expiry of any entry at any moment is covered; ids are arbitrary (text, storage key) pairs, including
   ".." and "x/../gc_worker"), REST deletes (LApiDel) and raw entries found below the service prefix (LSeed).
   `step = step_gen gc_locked gc_cas`; gc_locked (a mutex around load..save of one member) and gc_cas (the save is a
   compare-and-swap on the loaded value) are computed from the regenerated skeleton / comparison list (both true on this tree).  The service clauses (2-5) are postconditions of one call from ANY well-formed store
   (wf_svcs: keys strictly increasing, "gc_worker" text only under gc_worker's key, safe points >= 0), which
   every history preserves (C15_store_wellformed_always); they therefore hold at every call of every history. *)
From Coq Require Import String.
From PDV Require Import lib.Base lib.Skel lib.C15_Guard gen.Gen_C15 model.C15_Gc proof.C15_GcProof proof.C15_GcInterleave proof.C15_GcLoadMinX proof.C15_Skel.
Local Open Scope Z_scope.

(* ---- clause 1a: the stored cluster GC safe point never decreases (and stays readable), all interleavings ---- *)
Definition C15_gc_safe_point_monotone_full : Prop :=
  forall ls l s', step (exec step init ls) l = Some s' ->
    gc_le (gc (sto (exec step init ls))) (gc (sto s')).

Theorem C15_gc_safe_point_monotone : C15_gc_safe_point_monotone_full.
Proof. exact gc_monotone_pf. Qed.

(* ---- clause 1b: every response is >= every value acknowledged before the request began ---- *)
Definition C15_response_ge_all_acknowledged_full : Prop :=
  forall ls r before a, In (r, before) (resps (exec step init ls)) -> In a before -> a <= r.

Theorem C15_response_ge_all_acknowledged : C15_response_ge_all_acknowledged_full.
Proof. exact response_ge_pf. Qed.

(* what is stored bounds everything acknowledged so far *)
Theorem C15_acknowledged_le_stored :
  forall ls a, In a (acks (exec step init ls)) ->
    exists g, gc_read (gc (sto (exec step init ls))) = Some g /\ a <= g.
Proof. exact acks_le_stored_pf. Qed.

(* ---- request threads of several members.  gcSafePointLock serialises the requests of ONE member; a request of a deposed
        leader whose write reaches etcd late is a request thread that overlaps with those of the new leader.  The write is a
        compare-and-swap on the value the request was compared with (gc_cas, read off the comparison list of
        saveGCSafePointAsLeader; the transaction is also guarded by the leader key), and with it clause 1 holds for ALL
        interleavings of any number of request threads without any mutual exclusion (step_gen false true) ---- *)
Theorem C15_gc_safe_point_monotone_across_members :
  forall ls l s', step_gen false true (exec (step_gen false true) init ls) l = Some s' ->
    gc_le (gc (sto (exec (step_gen false true) init ls))) (gc (sto s')).
Proof. exact cas_alone_monotone_pf. Qed.

Theorem C15_response_ge_all_acknowledged_across_members :
  forall ls r before a, In (r, before) (resps (exec (step_gen false true) init ls)) -> In a before -> a <= r.
Proof. exact cas_alone_response_pf. Qed.

(* a save that arrives after the stored value has moved (the deposed leader's late write) is refused: nothing is stored,
   nothing is acknowledged *)
Theorem C15_stale_save_refused :
  forall b s t o p s', thr s t = Some p -> t_old p < t_new p -> cas_ok (gc (sto s)) (t_old p) = false ->
    step_gen b true s (LSave t o) = Some s' -> sto s' = sto s /\ acks s' = acks s /\ resps s' = resps s /\ thr s' t = None.
Proof. exact stale_save_refused_pf. Qed.

(* why both are there: the same model without the mutex and without the compare-and-swap (step_gen false false = the code
   before the two fixes) violates 1a, and stays correct exactly for the schedules in which load..save sections do not overlap *)
Theorem C15_without_mutex_and_cas_refuted :
  ~ (forall ls l s', step_gen false false (exec (step_gen false false) init ls) l = Some s' ->
       gc_le (gc (sto (exec (step_gen false false) init ls))) (gc (sto s'))).
Proof. exact without_mutex_refuted_pf. Qed.

Theorem C15_without_cas_partial :
  forall ls l s', guarded (step_gen false false) excl_label init (ls ++ [l]) = true ->
    step_gen false false (exec (step_gen false false) init ls) l = Some s' ->
    gc_le (gc (sto (exec (step_gen false false) init ls))) (gc (sto s')).
Proof. exact (monotone_guarded false excl_label (excl_ok false)). Qed.

(* the old witness (A loads 5, B loads 5, B saves 20, A saves 10): B's load is now disabled while A is inside *)
Example C15_old_interleaving_now_serialised :
  step (exec step init [LLoad 0 5; LSave 0 Ok; LLoad 0 10]) (LLoad 1 20) = None
  /\ gc (sto (exec step init (w_overlap ++ [LSave 0 Ok]))) = GVal 10
  /\ resps (exec step init (w_overlap ++ [LSave 0 Ok; LLoad 1 20; LSave 1 Ok; LGet])) = [(20, [20; 10; 5]); (20, [10; 5]); (10, [5]); (5, [])].
Proof. exact overlap_now_blocked. Qed.

(* ---- the store every history produces is well-formed, so clauses 2-5 apply at every call ---- *)
Theorem C15_store_wellformed_always :
  forall ls, Forall label_ok ls -> wf_svcs (svcs (sto (exec step init ls))).
Proof. exact (fun ls => wf_exec_pf gc_locked gc_cas ls init wf_init). Qed.

(* ---- clause 2: the reported minimum is never above the safe point of a live registered service ---- *)
Theorem C15_min_le_every_live :
  forall st i ttl sp now st' r, wf_svcs (svcs st) -> 0 <= sp -> now <= maxI64 ->
    svc_update st i ttl sp now = (st', Some r) ->
    forall k e, sv_get k (svcs st') = Some e -> now <= e_exp e -> r_sp r <= e_sp e.
Proof. exact min_le_every_live_pf. Qed.

(* ---- clause 3: a registration below the current minimum is not recorded (the call is a pure LoadMin) ---- *)
Theorem C15_below_min_not_recorded :
  forall st i ttl sp now st' r, wf_svcs (svcs st) -> 0 <= sp -> now <= maxI64 ->
    svc_update st i ttl sp now = (st', Some r) ->
    forall n, key_of i = KSvc n -> 0 < ttl -> sp < r_sp r ->
      st' = fst (load_min now st) /\ r = resp_of (snd (load_min now st)) now.
Proof. exact below_min_not_recorded_pf. Qed.

(* ---- clause 4: gc_worker's own entry always exists with unlimited lifetime, whatever the id ---- *)
Definition C15_gc_worker_always_infinite_full : Prop :=
  forall st i ttl sp now st' r, wf_svcs (svcs st) -> gcw_ok (svcs st) -> 0 <= sp -> now <= maxI64 ->
    svc_update st i ttl sp now = (st', Some r) -> gcw_ok (svcs st').

Theorem C15_gc_worker_always_infinite : C15_gc_worker_always_infinite_full.
Proof. exact (fun st i ttl sp now st' r Hwf _ Hsp Hnow Hrun => gc_worker_always_infinite_pf st i ttl sp now st' r Hwf Hsp Hnow Hrun). Qed.

(* every answered call establishes it from any store (e.g. one holding a finite gc_worker entry of an older version) ... *)
Theorem C15_gc_worker_established :
  forall st i ttl sp now st' r, wf_svcs (svcs st) -> 0 <= sp -> now <= maxI64 ->
    svc_update st i ttl sp now = (st', Some r) -> gcw_ok (svcs st').
Proof. exact gc_worker_always_infinite_pf. Qed.

(* ... and every label of every history keeps it (failed calls, REST deletes, cluster safe point traffic);
   only a raw write behind the handlers' back (LSeed) is excluded *)
Theorem C15_gc_worker_stays :
  forall ls s, wf_svcs (svcs (sto s)) -> gcw_ok (svcs (sto s)) ->
    Forall (fun l => label_ok l /\ no_seed l) ls -> gcw_ok (svcs (sto (exec step s ls))).
Proof. exact (gcw_stays_pf gc_locked gc_cas). Qed.

(* the old path-escaping inputs are refused and change nothing *)
Example C15_old_path_escapes_now_refused :
  let st := fst (svc_update (Store (GVal 30) []) IGcw maxI64 7 1700000000) in
  svc_update st (IName 100 KGc) 0 0 1700000000 = (st, None)
  /\ snd (svc_update st (IName 100 KGc) 1000 9 1700000000) = None
  /\ gc (fst (svc_update st (IName 100 KGc) 1000 9 1700000000)) = GVal 30
  /\ svc_update st (IName 101 (KSvc 0)) 0 8 1700000000 = (st, None)
  /\ svc_update st (IName 101 (KSvc 0)) 1000 8 1700000000 = (st, None).
Proof. exact escapes_now_refused. Qed.

(* ---- clause 5: expired and non-positive-TTL registrations disappear ---- *)
Theorem C15_expired_removed :
  forall st i ttl sp now st' r, wf_svcs (svcs st) -> 0 <= sp -> now <= maxI64 ->
    svc_update st i ttl sp now = (st', Some r) ->
    forall k e, sv_get k (svcs st') = Some e -> now <= e_exp e.
Proof. exact no_expired_left_pf. Qed.

Theorem C15_nonpositive_ttl_removed :
  forall st i ttl sp now st' r, wf_svcs (svcs st) -> now <= maxI64 ->
    svc_update st i ttl sp now = (st', Some r) ->
    forall n, key_of i = KSvc n -> n <> 0 -> ttl <= 0 -> sv_get n (svcs st') = None.
Proof. exact nonpositive_ttl_removed_pf. Qed.

(* an answered registration at or above the reported minimum is recorded, with the lease it asked for (services other than
   gc_worker): a write that was not committed must therefore not be acknowledged (seeded C15-12) *)
Theorem C15_acknowledged_registration_is_recorded :
  forall st i ttl sp now st' r, wf_svcs (svcs st) -> 0 <= sp -> now <= maxI64 ->
    svc_update st i ttl sp now = (st', Some r) ->
    forall n, key_of i = KSvc n -> n <> 0 -> 0 < ttl -> r_sp r <= sp ->
      sv_get n (svcs st') = Some (Entry (text_of i) (exp_of now ttl) sp).
Proof. exact acknowledged_is_recorded_pf. Qed.

(* ---- clauses 2, 4, 5 when something slips into UpdateServiceGCSafePoint's locked section: the REST delete takes no
        server lock, so it can remove the (clean, non-gc_worker) services d between LoadMin and the request's own save;
        and that save may fail (ErrNotApplied) or be applied although the handler sees an error (ErrApplied) ---- *)
Theorem C15_interleaved_update_is_plain_when_nothing_slips_in :
  forall st i ttl sp now, svc_update_il st i ttl sp now [] Ok = svc_update st i ttl sp now.
Proof. exact svc_update_il_plain. Qed.

Theorem C15_service_clauses_with_concurrent_rest_delete :
  forall st i ttl sp now d o st' r, wf_svcs (svcs st) -> 0 <= sp -> now <= maxI64 ->
    svc_update_il st i ttl sp now d o = (st', Some r) ->
    wf_svcs (svcs st') /\ gcw_ok (svcs st') /\
    forall k e, sv_get k (svcs st') = Some e -> now <= e_exp e /\ r_sp r <= e_sp e.
Proof. exact il_min_le_every_live_pf. Qed.

(* answered or not: the store stays well-formed, gc_worker's entry stays, the cluster safe point is untouched *)
Theorem C15_failed_service_update_keeps_store_sound :
  forall st i ttl sp now d o, wf_svcs (svcs st) -> 0 <= sp -> now <= maxI64 ->
    wf_svcs (svcs (fst (svc_update_il st i ttl sp now d o)))
    /\ (gcw_ok (svcs st) -> gcw_ok (svcs (fst (svc_update_il st i ttl sp now d o))))
    /\ gc (fst (svc_update_il st i ttl sp now d o)) = gc st.
Proof. exact il_always_pf. Qed.

(* ---- the same at the granularity of the single storage operations of LoadMinServiceGCSafePoint (model load_min_x /
        svc_update_x): the LoadRange may fail; before any entry is looked at, REST deletes may have removed other services; the
        repair save of a finite gc_worker entry may fail or half-fail (LoadMin then returns the error, possibly after having
        pruned some entries); a Remove of an expired entry may fail (the code ignores its error and goes on); the final
        (re)creation of gc_worker's entry may fail.  For EVERY such environment x (and d, o as above): the cluster safe point
        is untouched, the store stays well-formed, gc_worker's never-expiring entry stays, and an answered minimum is a lower
        bound of every live registration.  What is lost under a failing Remove is only clause 5 ("nothing expired is left")
        for that entry, until a later call. ---- *)
Theorem C15_fine_grained_model_is_plain_when_nothing_interferes :
  (forall now st, load_min_x quiet_env now st = (fst (load_min now st), Some (snd (load_min now st))))
  /\ (forall st i ttl sp now d o, svc_update_x st i ttl sp now quiet_env d o = svc_update_il st i ttl sp now d o).
Proof. exact (conj load_min_x_quiet svc_update_x_quiet). Qed.

Theorem C15_load_min_under_faults_and_rest_deletes :
  forall x now st, wf_svcs (svcs st) -> gcw_ok (svcs st) -> now <= maxI64 ->
    let res := load_min_x x now st in
    wf_svcs (svcs (fst res)) /\ gcw_ok (svcs (fst res)) /\ gc (fst res) = gc st
    /\ forall m, snd res = Some m -> lower_bound now (e_sp m) (fst res) /\ 0 <= e_sp m.
Proof. exact load_min_x_post. Qed.

Theorem C15_service_update_under_faults_and_rest_deletes :
  forall st i ttl sp now x d o, wf_svcs (svcs st) -> gcw_ok (svcs st) -> 0 <= sp -> now <= maxI64 ->
    let res := svc_update_x st i ttl sp now x d o in
    wf_svcs (svcs (fst res)) /\ gcw_ok (svcs (fst res)) /\ gc (fst res) = gc st
    /\ forall r, snd res = Some r -> lower_bound now (r_sp r) (fst res).
Proof. exact svc_update_x_post. Qed.

(* non-vacuity: a history with sequential and blocked updates, a fault, service registrations and reads *)
Example C15_nonvacuous :
  let ls := [LLoad 0 5; LSave 0 Ok; LLoad 1 20; LLoad 2 30; LSave 1 ErrApplied; LGet; LSvc IGcw maxI64 7 1700000000;
             LSvc (IName 3 (KSvc 3)) 1000 9 1700000000; LSvc (IName 100 KGc) 0 0 1700000000; LLoad 0 10; LSave 0 Ok; LGet] in
  Forall label_ok ls /\
  map fst (resps (exec step init ls)) = [20; 20; 20; 5] /\
  map fst (svcs (sto (exec step init ls))) = [0; 3].
Proof.
  cbv zeta. split; [|split; vm_compute; reflexivity].
  repeat constructor; vm_compute; discriminate.
Qed.

(* non-vacuity of the service postconditions: a call that prunes, repairs gc_worker, refuses below the minimum *)
Example C15_svc_nonvacuous :
  let st := Store (GVal 5) [(-20, Entry (TName (-20)) 1699990000 3); (0, Entry TGcw 1699990000 10); (20, Entry (TName 20) 1700003000 20)] in
  wf_svcs (svcs st) /\
  svc_update st (IName 10 (KSvc 10)) 1000 9 1700000000
  = (Store (GVal 5) [(0, Entry TGcw maxI64 10); (20, Entry (TName 20) 1700003000 20)], Some (Resp TGcw (maxI64 - 1700000000) 10)).
Proof.
  cbv zeta. split; [|vm_compute; reflexivity].
  split; [cbn; repeat split; intros k' e' Hin; repeat (destruct Hin as [Hin|Hin]; [inversion Hin; subst; lia|]); destruct Hin|].
  intros k e. cbn. repeat (match goal with |- context [k =? ?c] => destruct (Z.eqb_spec k c) end);
    intros Hk; inversion Hk; subst; cbn; split; intros; try discriminate; try reflexivity; lia.
Qed.

Print Assumptions C15_gc_safe_point_monotone.
Print Assumptions C15_response_ge_all_acknowledged.
Print Assumptions C15_acknowledged_le_stored.
Print Assumptions C15_gc_safe_point_monotone_across_members.
Print Assumptions C15_response_ge_all_acknowledged_across_members.
Print Assumptions C15_stale_save_refused.
Print Assumptions C15_without_mutex_and_cas_refuted.
Print Assumptions C15_without_cas_partial.
Print Assumptions C15_store_wellformed_always.
Print Assumptions C15_min_le_every_live.
Print Assumptions C15_below_min_not_recorded.
Print Assumptions C15_gc_worker_always_infinite.
Print Assumptions C15_gc_worker_established.
Print Assumptions C15_gc_worker_stays.
Print Assumptions C15_service_clauses_with_concurrent_rest_delete.
Print Assumptions C15_failed_service_update_keeps_store_sound.
Print Assumptions C15_load_min_under_faults_and_rest_deletes.
Print Assumptions C15_service_update_under_faults_and_rest_deletes.
Print Assumptions C15_expired_removed.
Print Assumptions C15_nonpositive_ttl_removed.
Print Assumptions C15_acknowledged_registration_is_recorded.
