(* C15 — GC safe points never move backwards.  Statements only; proofs in proof/C15_GcProof.v.

   Quantification.  Every label list `ls` is one history and one interleaving: any number of
   UpdateGCSafePoint request threads (LLoad t v ; LSave t o — the request's two storage operations, with
   the storage outcome Ok / ErrNotApplied / ErrApplied of the save), GetGCSafePoint (LGet),
   UpdateServiceGCSafePoint (LSvc id ttl safepoint now — one label, it runs under serviceSafePointLock;
   `now` is an arbitrary input of every call, not even monotone, so expiry of any entry at any moment
   is covered), REST deletes (LApiDel) and raw entries found in storage (LSeed).
   `step = step_gen gc_locked`; gc_locked is computed from the regenerated skeleton of
   UpdateGCSafePoint (false on this tree: no lock around load..save).

   A hypothesis `guarded step G init ls = true` says that every label that fires in the history
   satisfies G.  The two guards:
     excl_label  : no UpdateGCSafePoint request loads while another one is between its load and its save
     clean_label : no service id is cleaned by path.Join onto the cluster key gc/safe_point (e.g. "..")
   safe_label = both.  The service clauses (2-5) are postconditions of one call from ANY well-formed
   store (wf_svcs: keys strictly increasing, "gc_worker" text only under gc_worker's key, safe points
   >= 0), which every history preserves (C15_store_wellformed_always); they therefore hold at every
   call of every history. *)
From Coq Require Import String.
From PDV Require Import lib.Base lib.Skel lib.C15_Guard gen.Gen_C15 model.C15_Gc proof.C15_GcProof proof.C15_Skel.
Local Open Scope Z_scope.

(* ---- clause 1a: the stored cluster GC safe point never decreases (and stays readable) ---- *)
Definition C15_gc_safe_point_monotone_full : Prop :=
  forall ls l s', step (exec step init ls) l = Some s' ->
    gc_le (gc (sto (exec step init ls))) (gc (sto s')).

Theorem C15_gc_safe_point_monotone_refuted : ~ C15_gc_safe_point_monotone_full.
Proof. exact gc_monotone_refuted_pf. Qed.

(* each excluded class is necessary on its own *)
Theorem C15_gc_safe_point_monotone_refuted_by_interleaving : ~ gc_monotone_for clean_guard.
Proof. exact gc_monotone_needs_exclusion_pf. Qed.
Theorem C15_gc_safe_point_monotone_refuted_by_path_escape : ~ gc_monotone_for excl_label.
Proof. exact gc_monotone_needs_clean_ids_pf. Qed.

(* the strongest true statement about the code as it is *)
Theorem C15_gc_safe_point_monotone_partial :
  forall ls l s', guarded step safe_label init (ls ++ [l]) = true ->
    step (exec step init ls) l = Some s' ->
    gc_le (gc (sto (exec step init ls))) (gc (sto s')).
Proof. exact (monotone_guarded gc_locked safe_label (safe_label_ok gc_locked)). Qed.

(* the model of fixes/C15_mutex.patch (load..save under a mutex = step_gen true): all interleavings *)
Theorem C15_gc_safe_point_monotone_with_mutex :
  forall ls l s', guarded (step_gen true) clean_guard init (ls ++ [l]) = true ->
    step_gen true (exec (step_gen true) init ls) l = Some s' ->
    gc_le (gc (sto (exec (step_gen true) init ls))) (gc (sto s')).
Proof. exact (monotone_guarded true clean_guard clean_guard_ok). Qed.

(* ---- clause 1b: every response is >= every value acknowledged before the request began ---- *)
Definition C15_response_ge_all_acknowledged_full : Prop :=
  forall ls r before a, In (r, before) (resps (exec step init ls)) -> In a before -> a <= r.

Theorem C15_response_ge_all_acknowledged_refuted : ~ C15_response_ge_all_acknowledged_full.
Proof. exact response_refuted_pf. Qed.

Theorem C15_response_ge_all_acknowledged_partial :
  forall ls r before a, guarded step safe_label init ls = true ->
    In (r, before) (resps (exec step init ls)) -> In a before -> a <= r.
Proof. exact (responses_guarded gc_locked safe_label (safe_label_ok gc_locked)). Qed.

Theorem C15_response_ge_all_acknowledged_with_mutex :
  forall ls r before a, guarded (step_gen true) clean_guard init ls = true ->
    In (r, before) (resps (exec (step_gen true) init ls)) -> In a before -> a <= r.
Proof. exact (responses_guarded true clean_guard clean_guard_ok). Qed.

(* what is stored bounds everything acknowledged so far *)
Theorem C15_acknowledged_le_stored_partial :
  forall ls a, guarded step safe_label init ls = true -> In a (acks (exec step init ls)) ->
    exists g, gc_read (gc (sto (exec step init ls))) = Some g /\ a <= g.
Proof. exact (acks_le_stored_guarded gc_locked safe_label (safe_label_ok gc_locked)). Qed.

(* ---- the store every history produces is well-formed, so clauses 2-5 apply at every call ---- *)
Theorem C15_store_wellformed_always :
  forall ls, Forall label_ok ls -> wf_svcs (svcs (sto (exec step init ls))).
Proof. exact (fun ls => wf_exec_pf gc_locked ls init wf_init). Qed.

(* ---- clause 2: the reported minimum is never above the safe point of a live registered service ---- *)
Theorem C15_min_le_every_live :
  forall st i ttl sp now st' r, wf_svcs (svcs st) -> 0 <= sp -> now <= maxI64 ->
    svc_update st i ttl sp now = (st', Some r) ->
    forall k e, sv_get k (svcs st') = Some e -> now <= e_exp e -> r_sp r <= e_sp e.
Proof. exact min_le_every_live_pf. Qed.

(* ---- clause 3: a registration below the current minimum is not recorded (the call is a pure LoadMin) ---- *)
Theorem C15_below_min_not_recorded :
  forall st i ttl sp now st' r, wf_svcs (svcs st) -> 0 <= sp -> now <= maxI64 ->
    svc_update st i ttl sp now = (st', Some r) ->
    forall n, key_of i = KSvc n -> 0 < ttl -> sp < r_sp r ->
      st' = fst (load_min now st) /\ r = resp_of (snd (load_min now st)) now.
Proof. exact below_min_not_recorded_pf. Qed.

(* ---- clause 4: gc_worker's own entry always exists with unlimited lifetime ---- *)
Definition C15_gc_worker_always_infinite_full : Prop :=
  forall st i ttl sp now st' r, wf_svcs (svcs st) -> gcw_ok (svcs st) -> 0 <= sp -> now <= maxI64 ->
    svc_update st i ttl sp now = (st', Some r) -> gcw_ok (svcs st').

(* refuted by an id that path.Join cleans onto gc_worker's key ("x/../gc_worker", finite TTL) *)
Theorem C15_gc_worker_always_infinite_refuted : ~ C15_gc_worker_always_infinite_full.
Proof. exact gcw_refuted_pf. Qed.

(* established by every answered call whose id is stored under its own key, from any store ... *)
Theorem C15_gc_worker_always_infinite_partial :
  forall st i ttl sp now st' r, wf_svcs (svcs st) -> 0 <= sp -> now <= maxI64 ->
    svc_update st i ttl sp now = (st', Some r) -> is_clean i = true -> gcw_ok (svcs st').
Proof. exact gc_worker_always_infinite_pf. Qed.

(* ... and kept by every label of every history (failed calls, REST deletes, cluster safe point traffic) *)
Theorem C15_gc_worker_stays_partial :
  forall ls s, wf_svcs (svcs (sto s)) -> gcw_ok (svcs (sto s)) ->
    Forall (fun l => label_ok l /\ svc_clean l) ls -> gcw_ok (svcs (sto (exec step s ls))).
Proof. exact (gcw_stays_pf gc_locked). Qed.

(* ---- clause 5: expired and non-positive-TTL registrations disappear ---- *)
Theorem C15_expired_removed :
  forall st i ttl sp now st' r, wf_svcs (svcs st) -> 0 <= sp -> now <= maxI64 ->
    svc_update st i ttl sp now = (st', Some r) ->
    forall k e, sv_get k (svcs st') = Some e -> now <= e_exp e.
Proof. exact no_expired_left_pf. Qed.

Theorem C15_nonpositive_ttl_removed :
  forall st i ttl sp now st' r, wf_svcs (svcs st) -> now <= maxI64 ->
    svc_update st i ttl sp now = (st', Some r) ->
    forall n, key_of i = KSvc n -> n <> 0 -> ttl <= 0 -> sv_get n (svcs st') = None.
Proof. exact nonpositive_ttl_removed_pf. Qed.

(* non-vacuity: a guarded history with two sequential updates, a fault, service registrations and reads *)
Example C15_nonvacuous :
  let ls := [LLoad 0 5; LSave 0 Ok; LLoad 1 20; LSave 1 ErrApplied; LGet; LSvc IGcw maxI64 7 1700000000;
             LSvc (IName 3 (KSvc 3)) 1000 9 1700000000; LLoad 0 10; LSave 0 Ok; LGet] in
  guarded step safe_label init ls = true /\ Forall label_ok ls /\
  map fst (resps (exec step init ls)) = [20; 20; 20; 5] /\
  map fst (svcs (sto (exec step init ls))) = [0; 3].
Proof.
  cbv zeta. split; [vm_compute; reflexivity|]. split; [|split; vm_compute; reflexivity].
  repeat constructor; vm_compute; discriminate.
Qed.

(* non-vacuity of the service postconditions: a call that prunes, repairs gc_worker, refuses below the minimum *)
Example C15_svc_nonvacuous :
  let st := Store (GVal 5) [(-20, Entry (TName (-20)) 1699990000 3); (0, Entry TGcw 1699990000 10); (20, Entry (TName 20) 1700003000 20)] in
  wf_svcs (svcs st) /\
  svc_update st (IName 10 (KSvc 10)) 1000 9 1700000000
  = (Store (GVal 5) [(0, Entry TGcw maxI64 10); (20, Entry (TName 20) 1700003000 20)], Some (Resp TGcw (maxI64 - 1700000000) 10)).
Proof.
  cbv zeta. split; [|vm_compute; reflexivity].
  split; [cbn; repeat split; intros k' e' Hin; repeat (destruct Hin as [Hin|Hin]; [inversion Hin; subst; lia|]); destruct Hin|].
  intros k e. cbn. repeat (match goal with |- context [k =? ?c] => destruct (Z.eqb_spec k c) end);
    intros Hk; inversion Hk; subst; cbn; split; intros; try discriminate; try reflexivity; lia.
Qed.

Print Assumptions C15_gc_safe_point_monotone_refuted.
Print Assumptions C15_gc_safe_point_monotone_refuted_by_interleaving.
Print Assumptions C15_gc_safe_point_monotone_refuted_by_path_escape.
Print Assumptions C15_gc_safe_point_monotone_partial.
Print Assumptions C15_gc_safe_point_monotone_with_mutex.
Print Assumptions C15_response_ge_all_acknowledged_refuted.
Print Assumptions C15_response_ge_all_acknowledged_partial.
Print Assumptions C15_response_ge_all_acknowledged_with_mutex.
Print Assumptions C15_acknowledged_le_stored_partial.
Print Assumptions C15_store_wellformed_always.
Print Assumptions C15_min_le_every_live.
Print Assumptions C15_below_min_not_recorded.
Print Assumptions C15_gc_worker_always_infinite_refuted.
Print Assumptions C15_gc_worker_always_infinite_partial.
Print Assumptions C15_gc_worker_stays_partial.
Print Assumptions C15_expired_removed.
Print Assumptions C15_nonpositive_ttl_removed.
