(* C18 — Dynamic configuration changes are validated, atomic and durable.
   Statements only; proofs in proof/C18_ConfigProof.v, structural obligations in proof/C18_Skel.v.
   Quantification: `s` is ANY model state, `o` ANY setter call (schedule, replication with placement rules on or
   off, PD-server, label-property set/delete, cluster version, replication mode) with ANY value and ANY storage
   fault (none / not applied / applied-but-error at the config write, the rule write or the replication-status
   write); the history statements quantify over every operation list from every boot configuration. *)
From Coq Require Import String.
From PDV Require Import lib.Base gen.Gen_C18 model.C18_Config proof.C18_ConfigProof proof.C18_Skel.
Local Open Scope string_scope.
Local Open Scope Z_scope.

(* ---------- values outside their domains are never accepted ----------
   The domains are written out here (sched_out_of_domain etc. in the model file are plain arithmetic);
   the proofs go through the clause tables the translator regenerates from config.go and the model
   parses, so a clause removed from a Go Validate function makes these theorems unprovable. *)
Theorem C18_invalid_schedule_never_accepted :      (* ratio outside [0,1], low <= high, negative tolerant ratio, unregistered scheduler *)
  forall s c f, sched_out_of_domain c = true -> run_cmd s (OSetSchedule c f) = (s, RInvalid).
Proof. exact invalid_schedule_pf. Qed.
Theorem C18_deprecated_schedule_never_accepted :
  forall s c f, (existsb (fun b => b) (firstn 6 (sc_dis c)) = true \/ sc_sbr c <> 0) -> length (sc_dis c) = 6%nat ->
    run_cmd s (OSetSchedule c f) = (s, RInvalid).
Proof. exact deprecated_schedule_pf. Qed.
Theorem C18_invalid_replication_never_accepted :   (* isolation level that is not a location label *)
  forall s c f, repl_out_of_domain c = true -> run_cmd s (OSetReplication c f) = (s, RInvalid).
Proof. exact invalid_replication_pf. Qed.
Theorem C18_malformed_label_never_accepted :
  forall s c f, existsb (fun l => negb (valid_label_key l)) (rp_labels c) = true -> run_cmd s (OSetReplication c f) = (s, RInvalid).
Proof. exact bad_label_replication_pf. Qed.
Theorem C18_invalid_pdserver_never_accepted :      (* negative flow-round digit *)
  forall s c f, pd_out_of_domain c = true ->
    exists r, run_cmd s (OSetPDServer c f) = (s, r) /\ (r = RInvalid \/ r = RNotMember).
Proof. exact invalid_pdserver_pf. Qed.
Theorem C18_invalid_mode_never_accepted :
  forall s c f, mode_valid (rm_mode c) = false -> run_cmd s (OSetMode c f) = (s, RInvalid).
Proof. exact invalid_mode_pf. Qed.
Theorem C18_invalid_version_never_accepted : forall s f, run_cmd s (OSetVersion None f) = (s, RInvalid).
Proof. exact invalid_version_pf. Qed.

(* ---------- a rejected change leaves the served configuration exactly as it was ---------- *)
Definition C18_rejected_keeps_served_full : Prop := rejected_full.
(* FALSE of the code as it is (S11): the label-property roll-back applies the inverse operation *)
Theorem C18_rejected_keeps_served_refuted : ~ C18_rejected_keeps_served_full.
Proof. exact rejected_refuted_label_pf. Qed.
(* second, independent witness: a replication change refused by SetRule has already edited the served default rule *)
Theorem C18_rejected_refuted_by_rule_edit :
  exists s' r, run_cmd (boot base_conf) (OSetReplication (Repl 0 [] "" true false) NoFault) = (s', r)
    /\ r = RRuleContent /\ served s' = served (boot base_conf) /\ srule s' = Some (Rule 0 []) /\ srule (boot base_conf) = Some (Rule 3 []).
Proof. exact rejected_refuted_rule_pf. Qed.
(* TRUE for the six sections held by PersistOptions, for every setter, every value, every fault; the excluded
   class is the label-property call whose inverse does not undo it (label already present / absent) *)
Theorem C18_rejected_keeps_served_partial :
  forall s o s' r, run_cmd s o = (s', r) -> r <> ROk -> label_rollback_exact (c_lp (served s)) o -> served s' = served s.
Proof. exact rejected_keeps_served_partial_pf. Qed.
(* TRUE for the served default rule unless the change is one that edits it (placement rules on, count or labels
   changed, rule consistent with the old settings) *)
Theorem C18_rejected_keeps_rule_partial :
  forall s o s' r, run_cmd s o = (s', r) -> r <> ROk -> rm_init s = true ->
    (forall c f, o = OSetReplication c f -> repl_check s c (c_repl (served s)) <> Some true) -> srule s' = srule s.
Proof. exact rejected_keeps_rule_partial_pf. Qed.

(* ---------- an accepted change is what a newly elected leader reloads ---------- *)
(* whatever was accepted is exactly the value of the config key: no hypothesis *)
Theorem C18_accepted_config_is_stored :
  forall s o s', run_cmd s o = (s', ROk) -> stored s' = Some (served s').
Proof. exact accepted_config_is_stored_pf. Qed.

Definition C18_accepted_is_reloaded_full : Prop := accepted_full.
(* FALSE (S17): with placement rules on, SetReplicationConfig edits the served default rule in place and saves nothing *)
Theorem C18_accepted_is_reloaded_refuted : ~ C18_accepted_is_reloaded_full.
Proof. exact accepted_refuted_rule_pf. Qed.
(* second witness: trace-region-flow=false is dropped by `omitempty`, the documented migration never happens *)
Theorem C18_accepted_refuted_by_trace_flag :
  exists s', run_cmd (boot base_conf) (OSetPDServer (PdSrv "auto" 3 false "table") NoFault) = (s', ROk) /\
    option_map reload_conf (stored s') <> Some (normalise (served s')).
Proof. exact accepted_refuted_trace_pf. Qed.
(* TRUE for every history in which no replication change edits the default rule, when trace-region-flow is on:
   reload = documented normalisation of what is served, and the stored default rule is the served one *)
Theorem C18_accepted_is_reloaded_partial :
  forall c0 ops o s', no_rule_edit (boot c0) (ops ++ [o]) -> run_cmd (reach c0 ops) o = (s', ROk) ->
    ps_trace (c_pd (served s')) = true ->
    option_map reload_conf (stored s') = Some (normalise (served s')) /\
    (rp_pr (c_repl (served s')) = true -> strule s' = srule s').
Proof. exact accepted_partial_pf. Qed.

(* ---------- non-vacuity ---------- *)
Definition ex_ops : list op :=
  [OSetSchedule (Sched 0 900 600 ["balance-leader"] [false; false; false; false; false; false] 0 7) NoFault;
   OSetSchedule (Sched 0 600 600 [] [false; false; false; false; false; false] 0 7) NoFault;              (* low = high *)
   OSetSchedule (Sched 0 900 600 ["no-such"] [false; false; false; false; false; false] 0 7) NoFault;
   OSetPDServer (PdSrv "SELF" 5 true "raw") (Fault GConfig 0 FBefore);
   OSetPDServer (PdSrv "10.0.0.1:2379" 5 true "raw") NoFault;
   OSetLabel "reject-leader" "zone" "z2" NoFault; ODelLabel "reject-leader" "zone" "z1" (Fault GConfig 0 FAfter);
   OSetVersion (Some (5, 0, 0)) NoFault; OSetVersion None NoFault;
   OSetMode (RMode "dr-auto-sync" "zone") (Fault GMode 0 FBefore); OSetMode (RMode "DR_AUTO_SYNC" "zone") NoFault;
   OSetReplication (Repl 3 [] "" true true) NoFault;                                                    (* no rule edit *)
   OSetReplication (Repl 3 [] "rack" true true) NoFault].
Example C18_nonvacuous :
  map o_res (run run_op (boot base_conf) ex_ops) =
    [ROk; RInvalid; RInvalid; RStorage; RNotMember; ROk; RStorage; ROk; RInvalid; RStorage; ROk; ROk; RInvalid].
Proof. vm_compute. reflexivity. Qed.
Example C18_nonvacuous_no_rule_edit : no_rule_edit (boot base_conf) ex_ops.
Proof. vm_compute. repeat split; try discriminate; exact I. Qed.

Print Assumptions C18_invalid_schedule_never_accepted.
Print Assumptions C18_deprecated_schedule_never_accepted.
Print Assumptions C18_invalid_replication_never_accepted.
Print Assumptions C18_malformed_label_never_accepted.
Print Assumptions C18_invalid_pdserver_never_accepted.
Print Assumptions C18_invalid_mode_never_accepted.
Print Assumptions C18_invalid_version_never_accepted.
Print Assumptions C18_rejected_keeps_served_refuted.
Print Assumptions C18_rejected_refuted_by_rule_edit.
Print Assumptions C18_rejected_keeps_served_partial.
Print Assumptions C18_rejected_keeps_rule_partial.
Print Assumptions C18_accepted_config_is_stored.
Print Assumptions C18_accepted_is_reloaded_refuted.
Print Assumptions C18_accepted_refuted_by_trace_flag.
Print Assumptions C18_accepted_is_reloaded_partial.
