(* C18 — Dynamic configuration changes are validated, atomic and durable.
   Statements only; proofs in proof/C18_ConfigProof.v, structural obligations in proof/C18_Skel.v.
   Quantification: `s` is ANY model state, `o` ANY setter call (schedule, replication with placement rules on or
   off, PD-server, label-property set/delete, cluster version, replication mode) with ANY value and ANY storage
   fault (none / not applied / applied-but-error at the config write, the rule write or the replication-status
   write); the history statements quantify over every operation list from every boot configuration. *)
From Coq Require Import String.
From PDV Require Import lib.Base gen.Gen_C18 model.C18_Config proof.C18_ConfigProof proof.C18_Skel.
Local Open Scope string_scope.
Local Open Scope Z_scope.

(* ---------- values outside their domains are never accepted ----------
   The domains are written out here (sched_out_of_domain etc. in the model file are plain arithmetic);
   the proofs go through the clause tables the translator regenerates from config.go and the model
   parses, so a clause removed from a Go Validate function makes these theorems unprovable. *)
Theorem C18_invalid_schedule_never_accepted :      (* ratio outside [0,1], low <= high, negative tolerant ratio, unregistered scheduler *)
  forall s c f, sched_out_of_domain c = true -> run_cmd s (OSetSchedule c f) = (s, RInvalid).
Proof. exact invalid_schedule_pf. Qed.
Theorem C18_deprecated_schedule_never_accepted :
  forall s c f, (existsb (fun b => b) (firstn 6 (sc_dis c)) = true \/ sc_sbr c <> 0) -> length (sc_dis c) = 6%nat ->
    run_cmd s (OSetSchedule c f) = (s, RInvalid).
Proof. exact deprecated_schedule_pf. Qed.
Theorem C18_invalid_replication_never_accepted :   (* isolation level that is not a location label *)
  forall s c f, repl_out_of_domain c = true -> run_cmd s (OSetReplication c f) = (s, RInvalid).
Proof. exact invalid_replication_pf. Qed.
Theorem C18_malformed_label_never_accepted :
  forall s c f, existsb (fun l => negb (valid_label_key l)) (rp_labels c) = true -> run_cmd s (OSetReplication c f) = (s, RInvalid).
Proof. exact bad_label_replication_pf. Qed.
Theorem C18_invalid_pdserver_never_accepted :      (* negative flow-round digit *)
  forall s c f, pd_out_of_domain c = true ->
    exists r, run_cmd s (OSetPDServer c f) = (s, r) /\ (r = RInvalid \/ r = RNotMember).
Proof. exact invalid_pdserver_pf. Qed.
Theorem C18_invalid_mode_never_accepted :
  forall s c f, mode_valid (rm_mode c) = false -> run_cmd s (OSetMode c f) = (s, RInvalid).
Proof. exact invalid_mode_pf. Qed.
Theorem C18_invalid_version_never_accepted : forall s f, run_cmd s (OSetVersion None f) = (s, RInvalid).
Proof. exact invalid_version_pf. Qed.

(* ---------- a rejected change leaves the served configuration exactly as it was ----------
   (proved on the code as repaired by the fix commits 543d12e, d9b573b, d9b573b in /repo; on the tree before
   them the statement was refuted by the two witnesses that are now the regression lemmas below) *)
Definition C18_rejected_keeps_served_full : Prop := rejected_full.
(* every setter, every value, every fault, ANY state: the six sections are exactly as before, and with placement
   rules on (and a positive max-replicas, which SetRule insists on for the roll-back) so is the served default rule *)
Theorem C18_rejected_keeps_served : C18_rejected_keeps_served_full.
Proof. exact rejected_full_pf. Qed.

(* regressions (old witnesses): S11 — the label is already there, the save fails: nothing changes any more *)
Theorem C18_regression_label_rollback :
  run_cmd (boot base_conf) (OSetLabel "reject-leader" "zone" "z1" (Fault GConfig 0 FBefore)) = (boot base_conf, RStorage).
Proof. exact regression_label_rollback. Qed.
(* max-replicas 0 is refused by SetRule and the served default rule is untouched *)
Theorem C18_regression_rule_not_edited_on_refusal :
  run_cmd (boot base_conf) (OSetReplication (Repl 0 [] "" true false) NoFault) = (boot base_conf, RRuleContent).
Proof. exact regression_rule_not_edited_on_refusal. Qed.
(* a failed config write rolls back count AND labels of the default rule *)
Theorem C18_regression_rule_labels_rolled_back :
  exists s', run_cmd (boot base_conf) (OSetReplication (Repl 5 ["zone"] "" true false) (Fault GConfig 0 FBefore)) = (s', RStorage) /\
    served s' = base_conf /\ srule s' = Some (Rule 3 []) /\ strule s' = Some (Rule 3 []).
Proof. exact regression_rule_labels_rolled_back. Qed.

(* ---------- an accepted change is what a newly elected leader reloads ---------- *)
(* whatever was accepted is exactly the value of the config key: no hypothesis *)
Theorem C18_accepted_config_is_stored :
  forall s o s', run_cmd s o = (s', ROk) -> stored s' = Some (served s').
Proof. exact accepted_config_is_stored_pf. Qed.

(* the full statement, for every history from every boot configuration: reload = documented normalisation of what is
   served (default schedulers re-added, the deprecated flags — disable-*, store-balance-rate, trace-region-flow —
   cleared), and with placement rules on the stored default rule is the served one.  `definite`: no rule write of the
   history was applied-but-reported-failed (after such an unknown outcome storage is ahead until the next rule edit). *)
Definition C18_accepted_is_reloaded_full : Prop := accepted_full.
Theorem C18_accepted_is_reloaded : C18_accepted_is_reloaded_full.
Proof. exact accepted_full_pf. Qed.
(* regression (old witness, S17): placement rules on, max-replicas 3 -> 5: served rule and stored rule both 5 *)
Theorem C18_regression_rule_persisted :
  exists s', run_cmd (boot base_conf) (OSetReplication (Repl 5 ["zone"] "" true false) NoFault) = (s', ROk) /\
    srule s' = Some (Rule 5 ["zone"]) /\ strule s' = Some (Rule 5 ["zone"]).
Proof. exact regression_rule_persisted. Qed.

(* ---------- histories WITH leader changes ----------
   A leader change (model: leader_change = PersistOptions.Reload of the served options + fresh RuleManager / ModeManager from
   storage) is an operation of the history.  `hdefinite`: no rule write SINCE THE LAST LEADER CHANGE was applied-but-reported-
   failed; whatever happened before a leader change does not matter, because the new leader serves what is stored. *)
Definition C18_accepted_is_reloaded_with_leader_changes_full : Prop := accepted_full_h.
Theorem C18_accepted_is_reloaded_with_leader_changes : C18_accepted_is_reloaded_with_leader_changes_full.
Proof. exact accepted_full_h_pf. Qed.
(* the new leader serves exactly the reload of the config key, and (placement rules on) the stored default rule; it writes
   nothing to the config key; a second change right after changes nothing; reloading a reloaded configuration is the identity *)
Theorem C18_new_leader_serves_reload : forall s c, stored s = Some c -> served (leader_change s) = reload_conf c.
Proof. exact new_leader_serves_reload_pf. Qed.
Theorem C18_new_leader_serves_stored_rule :
  forall s r, rp_pr (c_repl (served (leader_change s))) = true -> strule s = Some r ->
    srule (leader_change s) = Some r /\ strule (leader_change s) = Some r.
Proof. exact new_leader_serves_stored_rule_pf. Qed.
Theorem C18_leader_change_keeps_storage : forall s, stored (leader_change s) = stored s.
Proof. exact leader_keeps_storage. Qed.
Theorem C18_leader_change_idempotent : forall s, leader_change (leader_change s) = leader_change s.
Proof. exact leader_change_idem_pf. Qed.
Theorem C18_reload_idempotent : forall c, reload_conf (reload_conf c) = reload_conf c.
Proof. exact reload_idem. Qed.
Example C18_nonvacuous_leader :
  let hs := [HSet (OSetReplication (Repl 5 ["zone"] "" true false) (Fault GRule 0 FAfter)); HLeader;
             HSet (OSetSchedule (Sched 0 900 600 ["label"] [false; false; false; false; false; false] 0 7) NoFault); HLeader] in
  hdefinite (hs ++ [HSet (OSetVersion (Some (5, 0, 0)) NoFault)]) /\
  map o_res (run run_hop (boot base_conf) hs) = [RStorage; ROk; ROk; ROk] /\
  srule (hreach base_conf hs) = Some (Rule 5 ["zone"]) /\          (* the rule write that was applied-but-failed is what the new leader serves *)
  sc_scheds (c_sched (served (hreach base_conf hs))) = ["label"; "balance-region"; "balance-leader"; "hot-region"].
Proof. vm_compute. repeat split; exact I. Qed.

(* ---------- the other writers of the served configuration: SetLabelPropertyConfig (whole map), SetStoreLimit, SetAllStoresLimit ----------
   They are operations of the same histories, so the three statements above cover them; what each of them changes when accepted: *)
Theorem C18_label_map_setter :
  forall s m f s', run_cmd s (OSetLabelMap m f) = (s', ROk) -> served s' = with_lp (served s) m.
Proof.
  intros s m f s' H. cbn [run_cmd] in H. unfold do_set_label_map in H.
  destruct (swap_persist_spec _ _ _ _ _ H) as (_&_&_&_&[(_&A&_)|(E&_)]); [exact A|discriminate].
Qed.
Theorem C18_store_limit_setters :
  forall s s',
    (forall id t rate dflt f, run_cmd s (OSetStoreLimit id t rate dflt f) = (s', ROk) ->
       served s' = with_limits (served s) (lim_set (c_limits (served s)) id t rate dflt)) /\
    (forall t rate f, run_cmd s (OSetAllLimits t rate f) = (s', ROk) ->
       served s' = with_limits (served s) (lim_all (c_limits (served s)) t rate)).
Proof.
  intros s s'. split; intros; cbn [run_cmd] in H; unfold do_set_store_limit, do_set_all_limits in H;
    destruct (swap_persist_spec _ _ _ _ _ H) as (_&_&_&_&[(_&A&_)|(E&_)]); try exact A; discriminate.
Qed.

(* ---------- non-vacuity ---------- *)
Definition ex_ops : list op :=
  [OSetSchedule (Sched 0 900 600 ["balance-leader"] [false; false; false; false; false; false] 0 7) NoFault;
   OSetSchedule (Sched 0 600 600 [] [false; false; false; false; false; false] 0 7) NoFault;              (* low = high *)
   OSetSchedule (Sched 0 900 600 ["no-such"] [false; false; false; false; false; false] 0 7) NoFault;
   OSetPDServer (PdSrv "SELF" 5 true "raw") (Fault GConfig 0 FBefore);
   OSetPDServer (PdSrv "10.0.0.1:2379" 5 true "raw") NoFault;
   OSetLabel "reject-leader" "zone" "z2" NoFault; ODelLabel "reject-leader" "zone" "z1" (Fault GConfig 0 FAfter);
   OSetVersion (Some (5, 0, 0)) NoFault; OSetVersion None NoFault;
   OSetMode (RMode "dr-auto-sync" "zone") (Fault GMode 0 FBefore); OSetMode (RMode "DR_AUTO_SYNC" "zone") NoFault;
   OSetReplication (Repl 3 [] "" true true) NoFault;                                                    (* no rule edit *)
   OSetReplication (Repl 3 [] "rack" true true) NoFault].
Example C18_nonvacuous :
  map o_res (run run_op (boot base_conf) ex_ops) =
    [ROk; RInvalid; RInvalid; RStorage; RNotMember; ROk; RStorage; ROk; RInvalid; RStorage; ROk; ROk; RInvalid].
Proof. vm_compute. reflexivity. Qed.
Example C18_nonvacuous_definite : definite ex_ops.
Proof. vm_compute. repeat split; exact I. Qed.

Print Assumptions C18_invalid_schedule_never_accepted.
Print Assumptions C18_deprecated_schedule_never_accepted.
Print Assumptions C18_invalid_replication_never_accepted.
Print Assumptions C18_malformed_label_never_accepted.
Print Assumptions C18_invalid_pdserver_never_accepted.
Print Assumptions C18_invalid_mode_never_accepted.
Print Assumptions C18_invalid_version_never_accepted.
Print Assumptions C18_rejected_keeps_served.
Print Assumptions C18_regression_label_rollback.
Print Assumptions C18_regression_rule_not_edited_on_refusal.
Print Assumptions C18_regression_rule_labels_rolled_back.
Print Assumptions C18_accepted_config_is_stored.
Print Assumptions C18_accepted_is_reloaded.
Print Assumptions C18_regression_rule_persisted.
Print Assumptions C18_accepted_is_reloaded_with_leader_changes.
Print Assumptions C18_new_leader_serves_reload.
Print Assumptions C18_new_leader_serves_stored_rule.
Print Assumptions C18_leader_change_keeps_storage.
Print Assumptions C18_leader_change_idempotent.
Print Assumptions C18_reload_idempotent.
Print Assumptions C18_label_map_setter.
Print Assumptions C18_store_limit_setters.
