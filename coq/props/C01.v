(* C01 — Timestamps are unique and strictly increasing in real-time order.
   Statements only; proofs in proof/C01_{Ctl,Win,Rec,Main}.v, structural obligations in proof/C01_Skel.v.

   A label list is one history of any number of members: concurrent TSO requests with arbitrary counts
   (LGen = generateTSO under the lock, LRespond = the overflow test and the second Check()), time-window
   updates (LUpdRead/Decide/Save/Set), user resets accepted or rejected (LURBegin/Decide/Save/End),
   allocator resets (LReset), hand-overs (LElect/LValidOff/LValidOn/LOwnerGone) and wall-clock readings that are
   arbitrary inputs of the labels that read the clock (so the clock may jump in either direction and
   differ between members).  recs = every generated range, newest first; gtb = generation instant,
   Granted te = answered to the client at instant te.

   Environment hypotheses built into the labels (DESIGN.md, C01):
   E2  (C03's theorem)  a member whose Check() is true while it is inside a term owns the leader record:
       LValidOn / LOwnerGone / LElect are enabled accordingly;
   E3  (server structure) Initialize follows a successful campaign, once per campaign;
   E4  (bounded pauses) when a member wins a later campaign none of its requests or maintenance calls from
       an earlier term is still between two of its atomic sections (LElect requires `busy = false`).
   step_r = step: every storage outcome of every window save is inside the quantifier - acknowledged, failed
   before it was applied, or applied although the client saw an error (then the allocator reads its window back
   before it decides about the next save: LUpdDecide / LURDecide; LUpdAbort / LURAbort = that read failed). *)
From Coq Require Import ZArith List.
From PDV Require Import lib.Base gen.Gen_C01 model.C01_Tso proof.C01_Ctl proof.C01_Win proof.C01_Rec proof.C01_Main proof.C01_Skel model.C03_Env proof.C01_EnvTie proof.C01_Suffix.
Import ListNotations.
Local Open Scope Z_scope.

Definition reach (iv gap : Z) (ls : list label) : state := exec step_r (init iv gap) ls.

(* the range of a response with count n ending at logical L:  (P, L-n+1) .. (P, L);
   `below r1 r2` = every value of r1 is smaller than every value of r2 *)

(* ranges granted by anyone, at any time, are ordered by the instant they were generated:
   in particular two different granted ranges are disjoint *)
Theorem C01_granted_ranges_disjoint_and_ordered :
  forall iv gap ls r1 r2 te1 te2, guard < iv ->
    let s := reach iv gap ls in
    In r1 (recs s) -> In r2 (recs s) -> gst r1 = Granted te1 -> gst r2 = Granted te2 ->
    (gtb r1 < gtb r2)%nat -> below r1 r2.
Proof. intros iv gap ls r1 r2 te1 te2 Hc s. apply granted_ordered. apply inv_exec. exact Hc. Qed.

(* real-time order: a request answered before another one was generated (a fortiori before it began)
   got smaller values *)
Theorem C01_realtime_order :
  forall iv gap ls r1 r2 te1 te2, guard < iv ->
    let s := reach iv gap ls in
    In r1 (recs s) -> In r2 (recs s) -> gst r1 = Granted te1 -> gst r2 = Granted te2 ->
    (te1 < gtb r2)%nat -> below r1 r2.
Proof. intros iv gap ls r1 r2 te1 te2 Hc s. apply granted_realtime. apply inv_exec. exact Hc. Qed.

(* the logical part of every granted value fits the 18-bit field (and is positive) *)
Theorem C01_logical_fits :
  forall iv gap ls r te, guard < iv ->
    let s := reach iv gap ls in
    In r (recs s) -> gst r = Granted te -> 0 < gL r - gcount r + 1 /\ gL r < 2 ^ 18.
Proof.
  intros iv gap ls r te Hc s Hr Hg.
  destruct (granted_fits s r te (inv_exec iv gap ls Hc) Hr Hg) as [H1 H2]. split; [exact H1|exact H2].
Qed.

(* hence the composed 64-bit timestamp preserves the order (physical below 2^46 ms ~ year 4199) *)
Theorem C01_compose_preserves_order :
  forall p1 l1 p2 l2, 0 <= p1 < 2 ^ 46 -> 0 <= p2 < 2 ^ 46 -> 0 <= l1 < 2 ^ 18 -> 0 <= l2 < 2 ^ 18 ->
    lt_pl p1 l1 p2 l2 -> compose_ts p1 l1 < compose_ts p2 l2.
Proof. exact compose_monotone. Qed.

(* non-vacuity: two members, a hand-over, a user reset, an overflowing request that is dropped *)
Example C01_nonvacuous :
  let ls := [LElect 0; LSyncLoad 0; LSyncSave 0 5000000000 Ok; LSyncSet 0; LGen 0 3; LRespond 0 0;
             LURBegin 0 (Z.shiftl 5001 18 + 7); LURDecide 0; LUREnd 0; LGen 0 2; LRespond 0 0;
             LGen 0 300000; LRespond 0 0;
             LUpdRead 0 5002000001; LUpdDecide 0; LUpdSet 0; LGen 0 1; LRespond 0 0;
             LValidOff 0; LOwnerGone; LGen 0 1; LRespond 0 0; LReset 0;
             LElect 1; LSyncLoad 1; LSyncSave 1 4000000000 Ok; LSyncSet 1; LGen 1 1; LRespond 1 0] in
  let s := reach 3000000000 86400000 ls in
  map (fun r => (gm r, gP r, gL r, gst r)) (recs s) =
  [(1%nat, 8001, 1, Granted 28); (0%nat, 5002, 2, Dropped); (0%nat, 5002, 1, Granted 17);
   (0%nat, 5001, 300009, Dropped); (0%nat, 5001, 9, Granted 10); (0%nat, 5000, 3, Granted 5)].
Proof. vm_compute. reflexivity. Qed.

(* Interface to C03: the hand-over labels above are exactly the labels of the leadership environment
   (model/C03_Env.v), and this model accepts every one of them at the same projected state (owner of the record,
   validity flags); the only side condition is the bounded-pause hypothesis E4 at an election (nothing of the elected
   member is in flight, its leader loop is outside a term).  props/C03.v (C03_refines_leadership_environment) shows
   that every history of the election model is a run of that environment: the leadership hypothesis E2 under which
   the theorems of this file are stated is therefore a theorem about the election model, not an assumption.
   An environment label touches neither the stored window, nor a memory's timestamp, nor the granted ranges. *)
Theorem C01_accepts_leadership_environment : forall s l e',
  estep (proj s) l = Some e' ->
  (forall m, l = EElect m -> busy s m = false) ->
  exists s', step0 s (lab l) = Some s' /\ env_eq (proj s') e'.
Proof. exact env_label_accepted. Qed.

Theorem C01_leadership_labels_keep_timestamps : forall s l s',
  step0 s (lab l) = Some s' ->
  W s' = W s /\ recs s' = recs s /\
  forall j, phys (mems s' j) = phys (mems s j) /\ logical (mems s' j) = logical (mems s j) /\
            last_saved (mems s' j) = last_saved (mems s j).
Proof. exact env_label_keeps_timestamps. Qed.

(* An allocator that differentiates its logical part (a Local TSO Allocator with suffix sfx at width b; the Global one
   with sfx = 0 once dc-locations exist): the answer for raw counter value L and count n stands for the values
   differentiate (L - i) b sfx, i < n (stride 2^b), and getTS drops it unless differentiate L b sfx < maxLogical.
   That check is stricter than the raw one, and the counter moves before the check either way: a run of such an
   allocator is a run of the model with some more answers dropped (proof/C01_Suffix.v).  Order and disjointness of
   everything the model grants carry over to the differentiated values ... *)
Theorem C01_suffixed_values_ordered :
  forall iv gap ls b sfx r1 r2 te1 te2 i j, guard < iv -> 0 <= b ->
    let s := reach iv gap ls in
    In r1 (recs s) -> In r2 (recs s) -> gst r1 = Granted te1 -> gst r2 = Granted te2 ->
    (gtb r1 < gtb r2)%nat -> 0 <= i -> 0 <= j < gcount r2 ->
    lt_pl (fst (value_of b sfx r1 i)) (snd (value_of b sfx r1 i)) (fst (value_of b sfx r2 j)) (snd (value_of b sfx r2 j)).
Proof.
  intros iv gap ls b sfx r1 r2 te1 te2 i j Hc Hb s H1 H2 G1 G2 Hlt Hi Hj.
  apply values_ordered; [exact Hb| |exact Hi|exact Hj].
  eapply C01_granted_ranges_disjoint_and_ordered; eauto.
Qed.

Theorem C01_suffixed_values_distinct_within_an_answer :
  forall b sfx r i j, 0 <= b -> i < j -> snd (value_of b sfx r j) < snd (value_of b sfx r i).
Proof. exact values_distinct_within. Qed.

(* ... and the check on the differentiated value makes every value of the answer fit the 18-bit field (and positive),
   so that the composed 64-bit values keep the order (C01_compose_preserves_order) *)
Theorem C01_suffixed_logical_fits :
  forall iv gap ls b sfx r te i, guard < iv -> 0 <= b -> 0 <= sfx ->
    let s := reach iv gap ls in
    In r (recs s) -> gst r = Granted te -> passes b sfx r -> 0 <= i < gcount r ->
    0 < snd (value_of b sfx r i) + 1 /\ snd (value_of b sfx r i) < 2 ^ 18.
Proof.
  intros iv gap ls b sfx r te i Hc Hb Hs s Hr Hg Hp Hi.
  destruct (C01_logical_fits iv gap ls r te Hc Hr Hg) as [Hlo _].
  exact (values_fit b sfx r i Hb Hs Hlo Hp Hi).
Qed.

(* the suffixed check never lets through what the raw check (the model's) would drop *)
Theorem C01_suffixed_check_is_stricter :
  forall b sfx r, 0 <= b -> 0 <= sfx -> 0 <= gL r -> passes b sfx r -> gL r < 2 ^ 18.
Proof. exact passes_raw. Qed.


(* ... and the client library hands exactly those values to the callers of a batch: caller k of the n callers whose requests were
   sent as one request of count n gets the (n-1-k)-th value from the top of the answer (client/client.go processTSORequests /
   finishTSORequest / addLogical, pinned in proof/C01_Skel.v), so what the theorems above say about the values of granted
   answers holds for what callers of the client receive, and two callers of one batch never share a value *)
Theorem C01_client_hands_out_the_granted_values :
  forall b sfx r k, 0 <= b ->
    client_value b sfx r k = value_of b sfx r (gcount r - 1 - k) /\
    (forall j, j < k -> snd (client_value b sfx r j) < snd (client_value b sfx r k)).
Proof.
  intros b sfx r k Hb. split; [apply client_value_is_value_of; exact Hb|].
  intros j Hjk. apply client_values_increase; assumption.
Qed.

(* the Global allocator's own width may grow over time (dc-locations joining) and must never shrink: with suffix 0, a later and
   larger raw value at an equal or larger width is larger (so are all values of a later batch, whose first raw value is above
   the earlier one). The code keeps the width when the last dc-location disappears (skel_gta_GenerateTSO_ok: the plain path
   passes GetSuffixBits()); `width_must_not_shrink` is the counterexample the real code produced before that repair. *)
Theorem C01_global_width_may_only_grow :
  forall x y b1 b2, 0 <= b1 <= b2 -> 0 <= x < y -> differentiate x b1 0 < differentiate y b2 0.
Proof. exact differentiate_mono_width. Qed.

Example C01_suffixed_nonvacuous :
  (* width 2, suffix 1: raw 65535 passes (262141), raw 65536 does not (262145 >= 2^18) although 65536 < 2^18 *)
  let r1 := Rec 0 5000 65535 3 1 true (Granted 2) in
  let r2 := Rec 0 5000 65536 1 3 true (Granted 4) in
  passes 2 1 r1 /\ ~ passes 2 1 r2 /\ gL r2 < 2 ^ 18 /\
  map (fun i => value_of 2 1 r1 i) [0; 1; 2] = [(5000, 262141); (5000, 262137); (5000, 262133)].
Proof. unfold passes. vm_compute. repeat split; try reflexivity; intros H; discriminate H. Qed.

Print Assumptions C01_granted_ranges_disjoint_and_ordered.
Print Assumptions C01_realtime_order.
Print Assumptions C01_logical_fits.
Print Assumptions C01_compose_preserves_order.
Print Assumptions C01_accepts_leadership_environment.
Print Assumptions C01_leadership_labels_keep_timestamps.
Print Assumptions C01_suffixed_values_ordered.
Print Assumptions C01_suffixed_values_distinct_within_an_answer.
Print Assumptions C01_suffixed_logical_fits.
Print Assumptions C01_suffixed_check_is_stricter.
Print Assumptions C01_client_hands_out_the_granted_values.
Print Assumptions C01_global_width_may_only_grow.
