(* C06 — Region cache never regresses and never holds overlapping regions.
   Statements only; proofs in proof/C06_*.v (on top of the C07 development: the cache IS the RegionsInfo model).

   Quantification.  `ls : list hlabel` is one history AND one schedule: LBegin t r starts a heartbeat with region r
   on thread t (first PreCheckPutRegion and the flags, against the cache of that moment), LStep t is the next
   atomic section of thread t (the locked section "second precheck + PutRegion", then one storage write at a
   time), LFlush is a flush of the write-back batch.  Thread ids are arbitrary integers, so any number of
   concurrent streams, any delivery order, duplicates and delays are label lists; disabled labels are skipped.
   Regions are arbitrary (ids, byte-string keys, epochs, terms, peers) within `wf_region`: valid key range and
   a well-formed peer list (the domain of C07).  The three kinds of labels are exactly the atomic sections of
   processRegionHeartbeat (proof/C06_Skel.v: regenerated skeleton with the position of c.Lock(), the second
   PreCheckPutRegion, PutRegion and the storage writes). *)
From Coq Require Import Sorting.Sorted.
From PDV Require Import lib.Base lib.C07_Key gen.Gen_C06 model.C07_BTreeSpec model.C07_Region
  proof.C07_Sorted proof.C07_Tree proof.C07_RegionProof proof.C07_Spec
  model.C06_Heartbeat proof.C06_HeartbeatProof proof.C06_Storage proof.C06_Closed proof.C06_Skel.
Local Open Scope Z_scope.

(* `reach wb ls` = the state after the history/schedule ls from the empty cluster (wb: write-back region storage) *)

(* in every reachable state the served regions are sorted and pairwise disjoint *)
Theorem C06_no_overlap : forall wb ls,
  Forall validP (cached (h_cache (reach wb ls))) /\ StronglySorted before (cached (h_cache (reach wb ls))).
Proof. exact c_no_overlap. Qed.

(* one label never lowers version, conf_ver or a reported term of a served id *)
Theorem C06_epoch_monotone_step : forall wb ls l h' id x x',
  hl_step (reach wb ls) l = Some h' ->
  get_region (h_cache (reach wb ls)) id = Some x -> get_region (h_cache h') id = Some x' ->
  r_ver x <= r_ver x' /\ r_confver x <= r_confver x' /\ (0 < r_term x' -> r_term x <= r_term x').
Proof. exact c_epoch_step. Qed.

(* over a whole execution, while the id stays served: version and conf_ver *)
Theorem C06_versions_monotone_per_id : forall wb ls1 ls2 id x x',
  always_served id (reach wb ls1) ls2 ->
  get_region (h_cache (reach wb ls1)) id = Some x ->
  get_region (h_cache (exec hl_step (reach wb ls1) ls2)) id = Some x' ->
  r_ver x <= r_ver x' /\ r_confver x <= r_confver x'.
Proof. exact c_versions_chain. Qed.

(* ... and the raft term, when every heartbeat reports one *)
Theorem C06_term_monotone_per_id_partial : forall wb ls1 ls2 id x x',
  Forall reports_term ls1 -> Forall reports_term ls2 ->
  always_served id (reach wb ls1) ls2 ->
  get_region (h_cache (reach wb ls1)) id = Some x ->
  get_region (h_cache (exec hl_step (reach wb ls1) ls2)) id = Some x' ->
  r_term x <= r_term x'.
Proof. exact c_term_chain. Qed.

(* without that hypothesis (a heartbeat without term between two reported terms) the clause is false *)
Definition C06_term_monotone_full : Prop := term_monotone_full.
Theorem C06_term_monotone_refuted : ~ C06_term_monotone_full.
Proof. exact term_monotone_refuted_pf. Qed.

(* both prechecks reject exactly the heartbeats the statement calls stale: staler than the cached region of the
   same id (term when reported, version, conf_ver) or older in version than a cached region it overlaps *)
Theorem C06_precheck_is_stale : forall wb ls r, valid_range r = true ->
  snd (precheck (h_cache (reach wb ls)) r) = stale_spec (cached (h_cache (reach wb ls))) r.
Proof. exact c_precheck_is_stale. Qed.

(* ... such a heartbeat is answered with an error at its first check and nothing changes *)
Theorem C06_stale_heartbeat_rejected_unchanged_first : forall wb ls t r,
  valid_range r = true -> th_get (h_threads (reach wb ls)) t = None ->
  stale_spec (cached (h_cache (reach wb ls))) r = true -> begin (reach wb ls) t r = (reach wb ls, HErr).
Proof. exact c_stale_first. Qed.

(* ... and at the check under the cluster lock when it became stale in between *)
Theorem C06_stale_heartbeat_rejected_unchanged_locked : forall wb ls t r fl,
  th_get (h_threads (reach wb ls)) t = Some (PLock r fl) -> f_cache fl = true ->
  stale_spec (cached (h_cache (reach wb ls))) r = true ->
  exists h', step (reach wb ls) t = (h', HErr) /\ h_cache h' = h_cache (reach wb ls) /\ h_store h' = h_store (reach wb ls).
Proof. exact c_stale_locked. Qed.

(* any error answer leaves cache and storage as they were *)
Theorem C06_rejected_unchanged : forall h t h',
  (forall r, begin h t r = (h', HErr) -> h' = h) /\
  (step h t = (h', HErr) -> h_cache h' = h_cache h /\ h_store h' = h_store h).
Proof. exact c_rejected_unchanged. Qed.

(* the regions displaced by an accepted put leave the cache in the same atomic section *)
Theorem C06_displaced_gone_from_cache : forall wb ls r x,
  wf_region r = true -> In x (snd (set_region (h_cache (reach wb ls)) r)) ->
  get_region (fst (set_region (h_cache (reach wb ls)) r)) (r_id x) = None /\ In x (cached (h_cache (reach wb ls))).
Proof. exact c_displaced_cache. Qed.

(* heartbeats handled one at a time (flushes of the write-back batch anywhere in between), either backend:
   neither the storage nor the pending write-back batch (`held`) ever has a region that is not served ... *)
Theorem C06_displaced_gone_from_storage_sequential_partial : forall wb ops,
  Forall seq_op ops ->
  forall id, held (h_store (seq_ops wb ops)) id -> get_region (h_cache (seq_ops wb ops)) id <> None.
Proof. exact c_storage_seq. Qed.

(* ... hence a region displaced by a heartbeat is gone from storage, and from the batch, when that heartbeat returns *)
Theorem C06_displaced_gone_when_heartbeat_returns_sequential_partial : forall wb ops r x,
  Forall seq_op ops -> wf_region r = true ->
  get_region (h_cache (seq_ops wb ops)) (r_id x) <> None ->
  get_region (h_cache (fst (heartbeat (seq_ops wb ops) r))) (r_id x) = None ->
  load_region (h_store (fst (heartbeat (seq_ops wb ops) r))) (r_id x) = None /\ ~ held (h_store (fst (heartbeat (seq_ops wb ops) r))) (r_id x).
Proof. exact c_displaced_storage. Qed.

(* the statement that was refuted before /repo commit 8a5de01 (DeleteRegion left the pending entry in the batch of
   the region storage, the next flush wrote the displaced region back): now a theorem, for both backends *)
Definition C06_displaced_gone_from_storage_full : Prop := storage_subset_full.
Theorem C06_displaced_gone_from_storage_after_flush : C06_displaced_gone_from_storage_full.
Proof. exact storage_subset_full_pf. Qed.

(* the old counterexample as a regression case *)
Example C06_region_storage_regression :
  let h := fold_left (fun h o => fst (h_step h o)) (map OHb witness_writeback ++ [OFlush]) (h_init true) in
  load_region (h_store h) 1 = None /\ map fst (s_kv (h_store h)) = [2] /\ map r_id (cached (h_cache h)) = [2].
Proof. exact witness_writeback_behaves. Qed.

(* non-vacuity: two threads race on overlapping regions; the stale one passes its first check, is rejected under
   the lock; the accepted one displaces a region *)
Example C06_nonvacuous :
  let p := [Peer 1 1 false; Peer 2 2 false] in
  let a := Region 1 (K [97]) (K [99]) p 1 [] 10 1 1 1 1 in
  let b := Region 2 (K [97]) (K [98]) p 1 [] 10 2 1 1 2 in
  let c := Region 3 (K [97]) (K [100]) p 1 [] 10 3 1 1 3 in
  let ls := [LBegin 1 a; LStep 1; LStep 1; LBegin 1 b; LBegin 2 c; LStep 2; LStep 2; LStep 2; LStep 1] in
  map r_id (cached (h_cache (exec hl_step (h_init false) ls))) = [3] /\
  snd (step (exec hl_step (h_init false) [LBegin 1 a; LStep 1; LStep 1; LBegin 1 b; LBegin 2 c; LStep 2; LStep 2; LStep 2]) 1) = HErr.
Proof. vm_compute. auto. Qed.

Print Assumptions C06_no_overlap.
Print Assumptions C06_epoch_monotone_step.
Print Assumptions C06_versions_monotone_per_id.
Print Assumptions C06_term_monotone_per_id_partial.
Print Assumptions C06_term_monotone_refuted.
Print Assumptions C06_precheck_is_stale.
Print Assumptions C06_stale_heartbeat_rejected_unchanged_first.
Print Assumptions C06_stale_heartbeat_rejected_unchanged_locked.
Print Assumptions C06_rejected_unchanged.
Print Assumptions C06_displaced_gone_from_cache.
Print Assumptions C06_displaced_gone_from_storage_sequential_partial.
Print Assumptions C06_displaced_gone_when_heartbeat_returns_sequential_partial.
Print Assumptions C06_displaced_gone_from_storage_after_flush.
