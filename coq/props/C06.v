(* C06 — Region cache never regresses and never holds overlapping regions.
   Statements only; proofs in proof/C06_*.v (on top of the C07 development: the cache IS the RegionsInfo model).

   Quantification.  `ls : list hlabel` is one history AND one schedule: LBegin t r starts a heartbeat with region r
   on thread t (first PreCheckPutRegion and the flags, against the cache of that moment), LStep t is the next
   atomic section of thread t (the locked section "second precheck + PutRegion", then one storage write at a
   time), LFlush is a flush of the write-back batch.  Thread ids are arbitrary integers, so any number of
   concurrent streams, any delivery order, duplicates and delays are label lists; disabled labels are skipped.
   Regions are arbitrary (ids, byte-string keys, epochs, peers) within `hb_ok`: valid key range and a well-formed
   peer list (`wf_region`, the domain of C07) and a raft term >= 0 (a uint64; 0 = the store reports no term).  The three kinds of labels are exactly the atomic sections of
   processRegionHeartbeat (proof/C06_Skel.v: regenerated skeleton with the position of c.Lock(), the second
   PreCheckPutRegion, PutRegion and the storage writes). *)
From Coq Require Import Sorting.Sorted.
From PDV Require Import lib.Base lib.C07_Key gen.Gen_C06 model.C07_BTreeSpec model.C07_Region
  proof.C07_Sorted proof.C07_Tree proof.C07_RegionProof proof.C07_Spec
  model.C06_Heartbeat proof.C06_HeartbeatProof proof.C06_Storage proof.C06_Closed proof.C06_Concurrent proof.C06_Skel.
Local Open Scope Z_scope.

(* `reach wb ls` = the state after the history/schedule ls from the empty cluster (wb: write-back region storage) *)

(* in every reachable state the served regions are sorted and pairwise disjoint *)
Theorem C06_no_overlap : forall wb ls,
  Forall validP (cached (h_cache (reach wb ls))) /\ StronglySorted before (cached (h_cache (reach wb ls))).
Proof. exact c_no_overlap. Qed.

(* one label never lowers version, conf_ver or raft term of a served id (a heartbeat that reports no term keeps the
   served one: BasicCluster.PutRegion since /repo 9338658) *)
Theorem C06_epoch_monotone_step : forall wb ls l h' id x x',
  hl_step (reach wb ls) l = Some h' ->
  get_region (h_cache (reach wb ls)) id = Some x -> get_region (h_cache h') id = Some x' ->
  r_ver x <= r_ver x' /\ r_confver x <= r_confver x' /\ r_term x <= r_term x'.
Proof. exact c_epoch_step. Qed.

(* over a whole execution, WHILE THE ID STAYS SERVED (the hypothesis `always_served`; without it the clause is false for the
   code, see C06_epochs_monotone_across_displacement_refuted below): version and conf_ver *)
Theorem C06_versions_monotone_per_id_partial : forall wb ls1 ls2 id x x',
  always_served id (reach wb ls1) ls2 ->
  get_region (h_cache (reach wb ls1)) id = Some x ->
  get_region (h_cache (exec hl_step (reach wb ls1) ls2)) id = Some x' ->
  r_ver x <= r_ver x' /\ r_confver x <= r_confver x'.
Proof. intros. destruct (c_epochs_chain wb ls1 ls2 id x x') as (A & B & _); auto. Qed.

(* ... and the raft term, for any mix of heartbeats with and without a reported term (this was
   C06_term_monotone_per_id_partial with the hypothesis "every heartbeat reports a term"; the full clause was refuted
   by the terms 5, 0, 3 before the repair) *)
Theorem C06_term_monotone_per_id_partial : forall wb ls1 ls2 id x x',
  always_served id (reach wb ls1) ls2 ->
  get_region (h_cache (reach wb ls1)) id = Some x ->
  get_region (h_cache (exec hl_step (reach wb ls1) ls2)) id = Some x' ->
  r_term x <= r_term x'.
Proof. intros. destruct (c_epochs_chain wb ls1 ls2 id x x') as (_ & _ & C); auto. Qed.

(* a reported term that PD acknowledged is remembered: after a heartbeat with a reported term was answered without an error -
   at once (nothing else changed: since /repo's repair a higher term alone is a reason to write the cache) or by its locked
   section - the served term of its id is at least that term; with C06_precheck_is_stale the heartbeat of the leader of an older
   term is rejected from then on.  Before the repair: term 6, then term 8 (idle region, same leader) answered OK but not
   remembered, then the delayed term-7 heartbeat of another peer accepted *)
Theorem C06_acknowledged_term_is_remembered : forall wb ls t r,
  (forall h', begin (reach wb ls) t r = (h', HOk) ->
     exists x, get_region (h_cache h') (r_id r) = Some x /\ r_term r <= r_term x) /\
  (forall fl h' res, th_get (h_threads (reach wb ls)) t = Some (PLock r fl) -> 0 < r_term r ->
     step (reach wb ls) t = (h', res) -> res <> HErr ->
     exists x, get_region (h_cache h') (r_id r) = Some x /\ r_term r <= r_term x).
Proof. exact c_ack_term. Qed.

(* across a displacement the clause is false (finding, KNOWN_FINDINGS.txt): a region displaced from the cache by a split child
   that reports first leaves no memory of its epoch and term; a delayed heartbeat of it over keys whose present owner has not
   reported yet is accepted, and the id is served again with version 2 / term 6 after version 4 / term 7 *)
Definition C06_epochs_monotone_across_displacement : Prop := epochs_monotone_across_displacement.
Theorem C06_epochs_monotone_across_displacement_refuted : ~ C06_epochs_monotone_across_displacement.
Proof. exact epochs_monotone_across_displacement_refuted_pf. Qed.

(* the old counterexample as a regression case: the term-less heartbeat keeps term 5, the heartbeat with term 3 is rejected *)
Example C06_term_gap_regression :
  let h1 := exec hl_step (h_init false) [LBegin 1 (term_gap_region 5 1); LStep 1; LStep 1] in
  let h2 := exec hl_step h1 [LBegin 1 (term_gap_region 0 2); LStep 1; LStep 1] in
  option_map r_term (get_region (h_cache h2) 1) = Some 5 /\
  snd (begin h2 1 (term_gap_region 3 3)) = HErr.
Proof. exact term_gap_behaves. Qed.

(* both prechecks reject exactly the heartbeats the statement calls stale: staler than the cached region of the
   same id (term when reported, version, conf_ver) or older in version than a cached region it overlaps *)
Theorem C06_precheck_is_stale : forall wb ls r, valid_range r = true ->
  snd (precheck (h_cache (reach wb ls)) r) = stale_spec (cached (h_cache (reach wb ls))) r.
Proof. exact c_precheck_is_stale. Qed.

(* ... such a heartbeat is answered with an error at its first check and nothing changes *)
Theorem C06_stale_heartbeat_rejected_unchanged_first : forall wb ls t r,
  valid_range r = true -> th_get (h_threads (reach wb ls)) t = None ->
  stale_spec (cached (h_cache (reach wb ls))) r = true -> begin (reach wb ls) t r = (reach wb ls, HErr).
Proof. exact c_stale_first. Qed.

(* ... and at the check under the cluster lock when it became stale in between (every thread that waits for the lock
   re-checks: saveKV or isNew imply saveCache) *)
Theorem C06_stale_heartbeat_rejected_unchanged_locked : forall wb ls t r fl,
  th_get (h_threads (reach wb ls)) t = Some (PLock r fl) ->
  stale_spec (cached (h_cache (reach wb ls))) r = true ->
  exists h', step (reach wb ls) t = (h', HErr) /\ h_cache h' = h_cache (reach wb ls) /\ h_store h' = h_store (reach wb ls).
Proof. exact c_stale_locked. Qed.

(* any error answer leaves cache and storage as they were *)
Theorem C06_rejected_unchanged : forall h t h',
  (forall r, begin h t r = (h', HErr) -> h' = h) /\
  (step h t = (h', HErr) -> h_cache h' = h_cache h /\ h_store h' = h_store h).
Proof. exact c_rejected_unchanged. Qed.

(* the regions displaced by an accepted put leave the cache in the same atomic section *)
Theorem C06_displaced_gone_from_cache : forall wb ls r x,
  wf_region r = true -> In x (snd (put_region (h_cache (reach wb ls)) r)) ->
  get_region (fst (put_region (h_cache (reach wb ls)) r)) (r_id x) = None /\ In x (cached (h_cache (reach wb ls))).
Proof. exact c_displaced_cache. Qed.

(* heartbeats handled one at a time (flushes of the write-back batch anywhere in between), either backend:
   neither the storage nor the pending write-back batch (`held`) ever has a region that is not served ... *)
Theorem C06_displaced_gone_from_storage_sequential : forall wb ops,
  Forall seq_op ops ->
  forall id, held (h_store (seq_ops wb ops)) id -> get_region (h_cache (seq_ops wb ops)) id <> None.
Proof. exact c_storage_seq. Qed.

(* ... hence a region displaced by a heartbeat is gone from storage, and from the batch, when that heartbeat returns *)
Theorem C06_displaced_gone_when_heartbeat_returns_sequential : forall wb ops r x,
  Forall seq_op ops -> wf_region r = true ->
  get_region (h_cache (seq_ops wb ops)) (r_id x) <> None ->
  get_region (h_cache (fst (heartbeat (seq_ops wb ops) r))) (r_id x) = None ->
  load_region (h_store (fst (heartbeat (seq_ops wb ops) r))) (r_id x) = None /\ ~ held (h_store (fst (heartbeat (seq_ops wb ops) r))) (r_id x).
Proof. exact c_displaced_storage. Qed.

(* the statement that was refuted before /repo commit 8a5de01 (DeleteRegion left the pending entry in the batch of
   the region storage, the next flush wrote the displaced region back): now a theorem, for both backends *)
Definition C06_displaced_gone_from_storage_full : Prop := storage_subset_full.
Theorem C06_displaced_gone_from_storage_after_flush : C06_displaced_gone_from_storage_full.
Proof. exact storage_subset_full_pf. Qed.

(* the old counterexample as a regression case *)
Example C06_region_storage_regression :
  let h := fold_left (fun h o => fst (h_step h o)) (map OHb witness_writeback ++ [OFlush]) (h_init true) in
  load_region (h_store h) 1 = None /\ map fst (s_kv (h_store h)) = [2] /\ map r_id (cached (h_cache h)) = [2].
Proof. exact witness_writeback_behaves. Qed.

(* concurrent heartbeats (the statement asks for the storage clause only when heartbeats are handled one at a time).
   For every interleaving of the atomic sections in which no locked section displaces a region whose save is still
   pending in another thread (`calm`): whatever storage or the write-back batch holds is served or its delete is on its
   way, and once no storage write is pending storage holds served regions only *)
Theorem C06_displaced_gone_from_storage_interleaved : forall wb ls, calm (h_init wb) ls ->
  let h := exec hl_step (h_init wb) ls in
  (forall id, held (h_store h) id -> get_region (h_cache h) id <> None \/ pending_del h id) /\
  ((forall t todo, ~ In (t, PStore todo) (h_threads h)) ->
   forall id x, load_region (h_store h) id = Some x -> get_region (h_cache h) id <> None).
Proof. exact storage_subset_interleaved_pf. Qed.

(* ... and without that restriction it is false: a save overtaken by the delete of the displacing heartbeat
   (storage writes are made after c.Unlock(); cluster.go documents this as not fatal) *)
Definition C06_displaced_gone_from_storage_concurrent : Prop := storage_subset_concurrent.
Theorem C06_displaced_gone_from_storage_concurrent_refuted : ~ C06_displaced_gone_from_storage_concurrent.
Proof. exact storage_subset_concurrent_refuted_pf. Qed.

(* non-vacuity: two threads race on overlapping regions; the stale one passes its first check, is rejected under
   the lock; the accepted one displaces a region *)
Example C06_nonvacuous :
  let p := [Peer 1 1 false; Peer 2 2 false] in
  let a := Region 1 (K [97]) (K [99]) p 1 [] 10 1 1 1 1 in
  let b := Region 2 (K [97]) (K [98]) p 1 [] 10 2 1 1 2 in
  let c := Region 3 (K [97]) (K [100]) p 1 [] 10 3 1 1 3 in
  let ls := [LBegin 1 a; LStep 1; LStep 1; LBegin 1 b; LBegin 2 c; LStep 2; LStep 2; LStep 2; LStep 1] in
  map r_id (cached (h_cache (exec hl_step (h_init false) ls))) = [3] /\
  snd (step (exec hl_step (h_init false) [LBegin 1 a; LStep 1; LStep 1; LBegin 1 b; LBegin 2 c; LStep 2; LStep 2; LStep 2]) 1) = HErr.
Proof. vm_compute. auto. Qed.

Print Assumptions C06_no_overlap.
Print Assumptions C06_epoch_monotone_step.
Print Assumptions C06_versions_monotone_per_id_partial.
Print Assumptions C06_term_monotone_per_id_partial.
Print Assumptions C06_epochs_monotone_across_displacement_refuted.
Print Assumptions C06_acknowledged_term_is_remembered.
Print Assumptions C06_precheck_is_stale.
Print Assumptions C06_stale_heartbeat_rejected_unchanged_first.
Print Assumptions C06_stale_heartbeat_rejected_unchanged_locked.
Print Assumptions C06_rejected_unchanged.
Print Assumptions C06_displaced_gone_from_cache.
Print Assumptions C06_displaced_gone_from_storage_sequential.
Print Assumptions C06_displaced_gone_when_heartbeat_returns_sequential.
Print Assumptions C06_displaced_gone_from_storage_after_flush.
Print Assumptions C06_displaced_gone_from_storage_interleaved.
Print Assumptions C06_displaced_gone_from_storage_concurrent_refuted.
