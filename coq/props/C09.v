(* C09 — Operator lifecycle: one per region, epoch-checked, stale ones cancelled.
   Statements only; proofs in proof/C09_StatusProof.v, C09_CtlProof.v, C09_OwnProof.v, C09_Skel.v.
   The model (model/C09_OpCtl.v) is a state machine over events: create / AddOperator /
   AddWaitingOperator / Promote / heartbeat dispatch / push dispatch / RemoveOperator / a command reaches
   the store or is lost / foreign change / time passes; `run_state ctl_step c es` is the state after the
   history es, so quantifying over es quantifies over all orders of these events. *)
From Coq Require Import String.
From PDV Require Import lib.Base gen.Gen_C08 gen.Gen_C09 model.C08_Steps model.C08_Builder model.C09_OpCtl
     proof.C08_BuilderProof proof.C08_JointMain proof.C08_NjMain proof.C09_StatusProof proof.C09_CtlProof proof.C09_LeftProof proof.C08_ListFacts proof.C09_CountProof proof.C09_StaleProof proof.C09_OwnGeneral proof.C09_Tidy proof.C09_BuilderMono proof.C09_NjMono
     proof.C09_OwnProof proof.C09_Skel.
Local Open Scope Z_scope.

(* ---- status_paths: on the matrix regenerated from status.go ---- *)
Theorem C09_status_matrix_exact : forall a b, valid_trans a b = true <-> allowed a b.
Proof. exact status_matrix_exact. Qed.

Theorem C09_end_status_absorbing : forall a b, is_end_status a = true -> valid_trans a b = false.
Proof. exact end_status_absorbing. Qed.

Theorem C09_end_status_exact : forall s, is_end_status s = true <-> end_status s.
Proof. exact end_status_exact. Qed.

(* ---- status_paths: every operator, every history: its status after any continuation of the history is
        reachable from its status now along the matrix (reach = identity, one allowed move, or
        CREATED -> STARTED -> an allowed move), and its identity (region, epoch, steps, priority) never changes ---- *)
Theorem C09_status_paths :
  forall es c id x, get_op c id = Some x ->
    exists x', get_op (run_state ctl_step c es) id = Some x' /\ rel x x'.
Proof. exact status_paths_pf. Qed.

Theorem C09_reach_spec :
  forall a b, reach a b = true <-> (a = b \/ allowed a b \/ (a = CREATED /\ allowed STARTED b)).
Proof. exact reach_spec. Qed.

Theorem C09_ended_stays : forall a b, is_end_status a = true -> reach a b = true -> a = b.
Proof. exact reach_from_end. Qed.

(* ---- one_op_per_region: for every history ---- *)
Theorem C09_one_op_per_region :
  forall maxw es, NoDup (map fst (running (run_state ctl_step (init maxw) es))).
Proof. exact one_op_per_region_pf. Qed.

(* ---- admitted_epoch_equal: whatever the event, an operator that is in the running set afterwards and was not
        before carries exactly the epoch of the region PD has cached at that moment ---- *)
Theorem C09_admitted_epoch_equal :
  forall c e rid id,
    In (rid, id) (running (fst (ctl_step c e))) ->
    In (rid, id) (running c) \/
    exists o r, get_op (fst (ctl_step c e)) id = Some o /\ o_rid o = rid /\
                alist_get (cache (fst (ctl_step c e))) rid = Some r /\ conf_ver r = o_cv o /\ rng r = o_ver o.
Proof. exact admitted_epoch_equal_pf. Qed.

(* ---- own_steps_never_stale, bounded: every plan of the builder model for <= 3 stores, executed by the
        controller model against the store model with nothing else touching the region: every command is
        accepted (addressed to the leader, current epoch), the operator is never cancelled and ends in SUCCESS ---- *)
Theorem C09_own_steps_never_stale_bounded :
  forall n, (1 <= n <= 3)%nat ->
  forall ov ol tv tl lok m force,
    In ov (vectors role_opts n) -> In ol (voters_of (origin_of ov)) ->
    In tv (vectors role_opts n) -> In tl (0 :: voters_of (target_of tv)) ->
    In lok (vectors [true; false] n) -> In m modes ->
  forall b ss kl kr,
    prepared (mk_input n ov ol tv tl lok m force) = Some b ->
    build (mk_input n ov ol tv tl lok m force) = Built ss kl kr ->
    plan_runs_ok (i_region (mk_input n ov ol tv tl lok m force)) ss = true.
Proof. exact own_steps_never_stale_bounded_pf. Qed.

(* ---- the input on which the builder's plan was judged stale on its own steps before the repair: the re-added
        peer now gets a new id and the plan runs to SUCCESS ---- *)
Theorem C09_readded_peer_repaired :
  build stale_input = Built fresh_plan false true /\ plan_runs_ok stale_region fresh_plan = true.
Proof. split; [exact fresh_plan_is_built|exact fresh_plan_runs]. Qed.

(* ---- own_steps_never_stale for ARBITRARY accepted plans needs the hypothesis "no peer is removed and re-added with
        the same id": the plan the unrepaired builder produced is accepted by the C08 checker and still cancelled ---- *)
Definition C09_own_steps_never_stale_any_plan : Prop :=
  forall r0 g ss, plan_ok g r0 ss = true -> plan_runs_ok r0 ss = true.

Theorem C09_own_steps_never_stale_needs_fresh_ids : ~ C09_own_steps_never_stale_any_plan.
Proof.
  intros F. destruct stale_plan_accepted_by_checker as (b & _ & Hok).
  specialize (F stale_region (goal_of b) stale_plan Hok).
  assert (E : plan_runs_ok stale_region stale_plan = false) by (vm_compute; reflexivity).
  rewrite E in F. clear Hok. discriminate F.
Qed.

(* ---- step accounting: a step that is neither finished nor unsafe in a region counts nothing in ConfVerChanged - every
        step kind, any region with one peer per store and non-zero peer ids; the one exception (RemovePeer whose store
        holds a peer with another id) is part of the statement.  Before ChangePeerV2Leave.ConfVerChanged was repaired
        (it looked the demoted peer up by PEER id) this failed for a pending leave step (S2). ---- *)
Theorem C09_unapplied_step_counts_nothing :
  forall r s, nodup_stores (peers r) = true -> region_ids_nonzero r = true -> step_ids_nonzero s = true ->
    remove_names_other_peer r s = false ->
    is_finish r s = false -> check_safety r s = None -> conf_ver_changed r s = 0.
Proof.
  intros r s Hn Hi Hz Hx Hf Hs. apply unfinished_safe_counts_nothing; auto. apply nodup_stores_ND. exact Hn.
Qed.

(* the S2 state: two demotions pending, nothing counted *)
Theorem C09_s2_repaired :
  is_finish s2_region s2_step = false /\ check_safety s2_region s2_step = None /\ conf_ver_changed s2_region s2_step = 0.
Proof. exact s2_counts_nothing. Qed.

(* in a joint state the stores accept nothing but the leave command *)
Theorem C09_joint_state_admits_only_leave :
  forall r, is_in_joint r = true ->
    (forall t p, apply_cmd r (CChangePeer t p) = None) /\ (forall c cs, apply_cmd r (CChangePeerV2 (c :: cs)) = None).
Proof. intros r H. split; intros; [apply joint_state_admits_only_leave|apply joint_state_refuses_enter]; exact H. Qed.

(* ---- left_running_is_ended: every history, every next event: an operator that was in the running set and is
        not any more is in an end status (and, by C09_status_paths / C09_ended_stays, keeps it) ---- *)
Theorem C09_left_running_is_ended :
  forall maxw es e rid id,
    In (rid, id) (running (run_state ctl_step (init maxw) es)) ->
    ~ In (rid, id) (running (fst (ctl_step (run_state ctl_step (init maxw) es) e))) ->
    exists o, get_op (fst (ctl_step (run_state ctl_step (init maxw) es) e)) id = Some o /\ is_end_status (o_st o) = true.
Proof. exact left_running_is_ended_pf. Qed.

(* the running set is keyed by the operator's own region, in every reachable state *)
Theorem C09_running_keyed_by_own_region :
  forall maxw es rid id o,
    In (rid, id) (running (run_state ctl_step (init maxw) es)) ->
    get_op (run_state ctl_step (init maxw) es) id = Some o -> o_rid o = rid.
Proof. exact running_keyed_pf. Qed.

(* an operator that left the running set in an event has a record under its region afterwards (every removal path
   buries, records are never deleted); with C09_records_truthful the record names an ended operator of that region *)
Theorem C09_left_running_has_record :
  forall maxw es e rid id,
    In (rid, id) (running (run_state ctl_step (init maxw) es)) ->
    ~ In (rid, id) (running (fst (ctl_step (run_state ctl_step (init maxw) es) e))) ->
    alist_get (records (fst (ctl_step (run_state ctl_step (init maxw) es) e))) rid <> None.
Proof. exact left_running_has_record_pf. Qed.

(* ---- remembered as such: in every reachable state every record (what GetOperatorStatus reports for a region without
        running operator) names an existing operator of that region, with exactly the end status that operator has ---- *)
Theorem C09_records_truthful :
  forall maxw es rid id st,
    alist_get (records (run_state ctl_step (init maxw) es)) rid = Some (id, st) ->
    exists o, get_op (run_state ctl_step (init maxw) es) id = Some o /\ o_st o = st /\ is_end_status st = true /\ o_rid o = rid.
Proof. exact records_truthful_pf. Qed.

(* ---- foreign_change_cancels ---- *)
(* Operator.ConfVerChanged never exceeds what the passed steps account for plus what the current step counts *)
Theorem C09_conf_ver_changed_bound :
  forall o r s, nth_error (o_steps o) (o_cur o) = Some s ->
    op_conf_ver_changed o r <= accounted (o_steps o) (o_cur o) + conf_ver_changed r s.
Proof. exact op_cvc_bound. Qed.

(* core form: whenever the current (unfinished) step counts nothing while its precondition holds, a heartbeat in which
   the step's precondition fails, or conf_ver is ahead of what the passed steps account for, ends the operator *)
Theorem C09_foreign_change_cancels_core :
  forall c rid id o r,
    NoDup (map fst (running c)) ->
    alist_get (running c) rid = Some id -> get_op c id = Some o -> o_rid o = rid ->
    alist_get (truth c) rid = Some r ->
    0 <= conf_ver r - o_cv o < two64 ->
    o_st (fst (op_check o r)) = STARTED ->
    forall s, snd (op_check o r) = Some s ->
    (check_safety r s = None -> conf_ver_changed r s = 0) ->
    (is_some (check_safety r s) = true \/ accounted (o_steps o) (o_cur (fst (op_check o r))) < conf_ver r - o_cv o) ->
    forall c', c' = fst (ctl_step c (EHeartbeat rid)) ->
    alist_get (running c') rid <> Some id \/ exists o', get_op c' id = Some o' /\ is_end_status (o_st o') = true.
Proof. exact foreign_change_cancels_pf. Qed.

(* foreign_change_cancels: the proviso discharged for every step kind (C09_unapplied_step_counts_nothing) *)
Theorem C09_foreign_change_cancels :
  forall c rid id o r,
    NoDup (map fst (running c)) ->
    alist_get (running c) rid = Some id -> get_op c id = Some o -> o_rid o = rid ->
    alist_get (truth c) rid = Some r ->
    0 <= conf_ver r - o_cv o < two64 ->
    nodup_stores (peers r) = true -> region_ids_nonzero r = true ->
    o_st (fst (op_check o r)) = STARTED ->
    forall s, snd (op_check o r) = Some s ->
    step_ids_nonzero s = true ->
    remove_names_other_peer r s = false ->      (* not: RemovePeer{store, id} while the store holds a peer with another id *)
    (is_some (check_safety r s) = true \/ accounted (o_steps o) (o_cur (fst (op_check o r))) < conf_ver r - o_cv o) ->
    forall c', c' = fst (ctl_step c (EHeartbeat rid)) ->
    alist_get (running c') rid <> Some id \/ exists o', get_op c' id = Some o' /\ is_end_status (o_st o') = true.
Proof. exact foreign_change_cancels_full_pf. Qed.

(* without the exception the statement is false: a RemovePeer naming peer 12 while the store holds peer 99 counts the
   removal as done (a state that takes two configuration changes to reach, so no single change hides behind it) *)
Definition C09_foreign_change_cancels_any_state : Prop :=
  forall c rid id o r s,
    alist_get (running c) rid = Some id -> get_op c id = Some o -> alist_get (truth c) rid = Some r ->
    o_st (fst (op_check o r)) = STARTED -> snd (op_check o r) = Some s ->
    accounted (o_steps o) (o_cur (fst (op_check o r))) < conf_ver r - o_cv o ->
    alist_get (running (fst (ctl_step c (EHeartbeat rid)))) rid <> Some id.

Theorem C09_foreign_change_cancels_needs_matching_remove_id : ~ C09_foreign_change_cancels_any_state.
Proof.
  intros F. destruct rm_not_cancelled as (H1 & _ & _ & H4 & _).
  apply (F rm_ctl 1 1 (Opr 1 1 6 1 [rm_step] 0 STARTED 1 false 1 false false) rm_region rm_step); try reflexivity; try exact H4; try exact H1.
Qed.

(* RemoveOperator cancels the operator and then buries it; buryOperator cancels a non-ended operator itself: the two
   are the same state transformer (so dropping either Cancel alone is not observable) *)
Theorem C09_cancel_before_bury_redundant : forall c id, bury (cancel c id) id = bury c id.
Proof. exact cancel_before_bury_redundant. Qed.

(* ---- own_steps_never_stale, in general: ANY plan the C08 checker accepts, ANY region with one peer per store. Along
        its execution by the stores (finished steps are passed over) every heartbeat sees: the current step's CheckSafety
        holds and conf_ver(region) - conf_ver(operator) <= Operator.ConfVerChanged, i.e. checkStaleOperator keeps the operator.
        Hypothesis (necessary, witness below): no step lowers what an EARLIER step counts in ConfVerChanged
        (monotone_from; applied steps name non-zero peer ids and, for joint steps, at least one peer).
        Core lemma: an applied step raises conf_ver by exactly its nominal amount and counts exactly that afterwards. ---- *)
Theorem C09_step_accounting :
  forall r s c r', nodup_stores (peers r) = true -> nodup_stores (peers r') = true -> wf_step s = true ->
    exec_step r s = RDone c r' -> is_finish r' s = true ->
    conf_ver r' = conf_ver r + nominal s /\ conf_ver_changed r' s = nominal s.
Proof.
  intros r s c r' H1 H2. apply step_accounting; apply nodup_stores_ND; assumption.
Qed.

Theorem C09_own_steps_never_stale :
  forall g r0 ss,
    nodup_stores (peers r0) = true ->
    plan_ok g r0 ss = true ->
    monotone_from [] r0 ss = true ->
    heartbeats_fine (conf_ver r0) [] r0 ss = true.
Proof.
  intros g r0 ss Hnd Hok Hm. apply (heartbeats_fine_general g); auto.
  - unfold plan_ok in Hok. destruct (plan_check g r0 ss); [discriminate|reflexivity].
  - unfold cvc_sum. cbn. lia.
Qed.

(* what "heartbeats_fine" means for the controller: with the current step safe and conf_ver not ahead of
   Operator.ConfVerChanged, checkStaleOperator does nothing *)
Theorem C09_stale_test_keeps_operator :
  forall c o s r, check_safety r s = None -> 0 <= conf_ver r - o_cv o -> conf_ver r - o_cv o <= op_conf_ver_changed o r ->
    check_stale c o s r = (c, false).
Proof. exact check_stale_keeps. Qed.

Theorem C09_op_conf_ver_changed_is_sum :
  forall o r (done : list step) s rest, o_steps o = (done ++ s :: rest)%list -> o_cur o = length done ->
    op_conf_ver_changed o r = cvc_sum r (done ++ [s])%list.
Proof. exact op_cvc_is_sum. Qed.

(* ---- a syntactic criterion for the hypothesis, for ANY plan: every later step is compatible with every earlier one
        (compat: other store; or role changes after a learner add / a removal; the matching leave after an enter; removal of
        a store a joint step did not promote; a re-add under another id after a removal), joint steps come in matching
        enter / leave pairs with only leadership moving in between, and the steps name non-zero peer ids ---- *)
Theorem C09_tidy_plans_are_monotone :
  forall g ss r,
    plan_ok g r ss = true -> nodup_stores (peers r) = true -> is_in_joint r = false ->
    bracketed None ss = true -> forallb step_ids_nonzero ss = true -> tidy_from nil ss = true ->
    monotone_from nil r ss = true.
Proof.
  intros g ss r Hok Hnd Hnj Hb Hz Ht. apply (tidy_monotone g ss nil r None); auto.
  - apply plan_ok_check. exact Hok.
  - apply not_joint_NJ. exact Hnj.
Qed.

(* ---- the builder's JOINT path (the default configuration) satisfies it in general: any region, any call sequence, any
        cluster; peer ids of the origin and of the added peers non-zero.  So own_steps_never_stale is unconditional for
        every plan built with joint consensus ---- *)
Theorem C09_builder_joint_plans_monotone :
  forall i b ss kl kr,
    nodup_stores (peers (i_region i)) = true ->
    is_in_joint (i_region i) = false ->
    (exists lp, get_store_peer (i_region i) (leader (i_region i)) = Some lp /\ prole lp = Voter) ->
    region_ids_nonzero (i_region i) = true -> (forall a, In a (b_add b) -> pid a <> 0) ->
    prepared i = Some b -> b_use_joint b = true -> build i = Built ss kl kr ->
    monotone_from nil (i_region i) ss = true.
Proof. exact builder_joint_monotone_pf. Qed.

Theorem C09_own_steps_never_stale_joint_builder :
  forall i b ss kl kr,
    nodup_stores (peers (i_region i)) = true ->
    is_in_joint (i_region i) = false ->
    (exists lp, get_store_peer (i_region i) (leader (i_region i)) = Some lp /\ prole lp = Voter) ->
    region_ids_nonzero (i_region i) = true -> (forall a, In a (b_add b) -> pid a <> 0) ->
    prepared i = Some b -> b_use_joint b = true -> build i = Built ss kl kr ->
    heartbeats_fine (conf_ver (i_region i)) nil (i_region i) ss = true.
Proof.
  intros i b ss kl kr H1 H2 H3 H4 H5 H6 H7 H8.
  apply (C09_own_steps_never_stale (goal_of b)); auto.
  - eapply builder_joint_plan_ok_general_pf; eauto.
  - eapply builder_joint_monotone_pf; eauto.
Qed.

(* ---- the builder's NON-joint path (joint consensus disabled or unsupported) satisfies it in general as well: invariant
        of the loop of buildStepsWithoutJointConsensus - the store of every step emitted so far has nothing pending that
        a later step could undo (after a removal only a learner with another id may still be added there) ---- *)
Theorem C09_builder_nonjoint_plans_monotone :
  forall i b ss kl kr,
    nodup_stores (peers (i_region i)) = true ->
    is_in_joint (i_region i) = false ->
    (exists lp, get_store_peer (i_region i) (leader (i_region i)) = Some lp /\ prole lp = Voter) ->
    region_ids_nonzero (i_region i) = true -> (forall a, In a (b_add b) -> pid a <> 0) ->
    prepared i = Some b -> b_use_joint b = false ->
    NoDup (map pid (peers (i_region i)) ++ map pid (b_add b)) ->
    build i = Built ss kl kr ->
    monotone_from nil (i_region i) ss = true.
Proof. exact builder_nonjoint_monotone_pf. Qed.

(* ---- both paths: every plan of the builder is monotone, hence (own_steps_never_stale, builder_plan_ok) along the
        execution of EVERY builder plan every heartbeat finds the current step safe and conf_ver not ahead of what the
        passed steps account for.  No hypothesis on the plan is left; on the input: one peer per store, not in a joint
        state, leader a voter, peer ids of origin and added peers non-zero and pairwise distinct (id allocator, C08) ---- *)
Theorem C09_builder_plans_monotone :
  forall i b ss kl kr,
    nodup_stores (peers (i_region i)) = true ->
    is_in_joint (i_region i) = false ->
    (exists lp, get_store_peer (i_region i) (leader (i_region i)) = Some lp /\ prole lp = Voter) ->
    region_ids_nonzero (i_region i) = true -> (forall a, In a (b_add b) -> pid a <> 0) ->
    prepared i = Some b ->
    NoDup (map pid (peers (i_region i)) ++ map pid (b_add b)) ->
    build i = Built ss kl kr ->
    monotone_from nil (i_region i) ss = true.
Proof.
  intros i b ss kl kr H1 H2 H3 H4 H5 H6 H7 H8. destruct (b_use_joint b) eqn:E.
  - eapply builder_joint_monotone_pf; eauto.
  - eapply builder_nonjoint_monotone_pf; eauto.
Qed.

Theorem C09_own_steps_never_stale_builder :
  forall i b ss kl kr,
    nodup_stores (peers (i_region i)) = true ->
    is_in_joint (i_region i) = false ->
    (exists lp, get_store_peer (i_region i) (leader (i_region i)) = Some lp /\ prole lp = Voter) ->
    region_ids_nonzero (i_region i) = true -> (forall a, In a (b_add b) -> pid a <> 0) ->
    prepared i = Some b ->
    NoDup (map pid (peers (i_region i)) ++ map pid (b_add b)) ->
    build i = Built ss kl kr ->
    heartbeats_fine (conf_ver (i_region i)) nil (i_region i) ss = true.
Proof.
  intros i b ss kl kr H1 H2 H3 H4 H5 H6 H7 H8.
  apply (C09_own_steps_never_stale (goal_of b)); auto.
  - destruct (b_use_joint b) eqn:E.
    + eapply builder_joint_plan_ok_general_pf; eauto.
    + eapply builder_nonjoint_plan_ok_general_pf; eauto.
  - eapply C09_builder_plans_monotone; eauto.
Qed.

(* the builder's plans satisfy the hypothesis (bounded: exhaustive for <= 3 stores; together with
   C09_own_steps_never_stale_bounded, which runs the whole controller + store loop on the same domain) *)
Theorem C09_builder_plans_monotone_bounded :
  forall n, (1 <= n <= 3)%nat ->
  forall ov ol tv tl lok m force,
    In ov (vectors role_opts n) -> In ol (voters_of (origin_of ov)) ->
    In tv (vectors role_opts n) -> In tl (0 :: voters_of (target_of tv)) ->
    In lok (vectors [true; false] n) -> In m modes ->
  forall ss kl kr,
    build (mk_input n ov ol tv tl lok m force) = Built ss kl kr ->
    monotone_from [] (i_region (mk_input n ov ol tv tl lok m force)) ss = true.
Proof. exact builder_plans_monotone_bounded_pf. Qed.

(* the hypothesis is needed, also when no peer is re-added under its old id: a plan that undoes its own step
   ([add learner 44 on store 4; remove it again; transfer leader]) is accepted by the C08 checker and cancelled by the
   controller on its own steps - the AddLearner no longer counts once the peer is gone *)
Definition C09_own_steps_never_stale_without_monotonicity : Prop :=
  forall r0 g ss, nodup_stores (peers r0) = true -> plan_ok g r0 ss = true -> readded_same_id ss = false ->
                  plan_runs_ok r0 ss = true.

Theorem C09_own_steps_never_stale_needs_monotonicity : ~ C09_own_steps_never_stale_without_monotonicity.
Proof.
  intros F. destruct undo_plan_facts as (H1 & H2 & H3 & _).
  specialize (F undo_region undo_goal undo_plan eq_refl H1 H2). rewrite H3 in F. discriminate F.
Qed.

(* non-vacuity: a joint plan runs to SUCCESS through the controller; a higher-priority operator replaces a running one *)
Example C09_nonvacuous :
  plan_runs_ok (Region [Peer 1 11 Voter; Peer 2 12 Voter; Peer 3 13 Learner] 1 5 0)
               [AddLearner 4 44; ChangePeerV2Enter [(4, 44)] [(1, 11)]; TransferLeader 1 4;
                ChangePeerV2Leave [(4, 44)] [(1, 11)]; RemovePeer 1 11] = true
  /\ map b_status (run ctl_step (init 5)
        [ERegion 1 (Region [Peer 1 11 Voter; Peer 2 12 Voter] 1 5 0);
         ECreate 1 1 5 0 [TransferLeader 1 2] 1 false 1; ECreate 2 1 5 0 [AddLearner 3 33] 2 true 1;
         EAdd [1]; EAdd [2]])
     = [[]; [(1, CREATED)]; [(1, CREATED); (2, CREATED)]; [(1, STARTED); (2, CREATED)]; [(1, REPLACED); (2, STARTED)]].
Proof. split; vm_compute; reflexivity. Qed.

(* ---- heartbeat streams that break: a command pushed while the target store has no working stream is lost for good - it
        never reaches a store later; a store that binds a new stream receives nothing on its own.  (The real
        HeartbeatStreams is driven with failing streams and re-binding and everything any stream receives is observed;
        monitor clauses command-delivered-without-running-operator / command-not-stamped-with-cached-epoch-and-leader.) ---- *)
Theorem C09_unbound_store_receives_nothing :
  forall c ms m, In m (inbox (send c ms)) ->
    In m (inbox c) \/ (In m ms /\ existsb (Z.eqb (m_target_store m)) (unbound c) = false).
Proof.
  intros c ms m H. unfold send, upd in H. cbn [inbox] in H. apply in_app_or in H as [H|H]; [left; exact H|right].
  apply filter_In in H as [H1 H2]. split; [exact H1|]. apply negb_true_iff in H2. exact H2.
Qed.

Theorem C09_rebind_delivers_nothing :
  forall c st, b_sent (snd (ctl_step c (ERebind st))) = nil /\ inbox (fst (ctl_step c (ERebind st))) = inbox c
               /\ running (fst (ctl_step c (ERebind st))) = running c.
Proof. intros c st. repeat split. Qed.

Print Assumptions C09_status_matrix_exact.
Print Assumptions C09_end_status_absorbing.
Print Assumptions C09_end_status_exact.
Print Assumptions C09_status_paths.
Print Assumptions C09_reach_spec.
Print Assumptions C09_ended_stays.
Print Assumptions C09_one_op_per_region.
Print Assumptions C09_admitted_epoch_equal.
Print Assumptions C09_own_steps_never_stale_bounded.
Print Assumptions C09_readded_peer_repaired.
Print Assumptions C09_own_steps_never_stale_needs_fresh_ids.
Print Assumptions C09_unapplied_step_counts_nothing.
Print Assumptions C09_s2_repaired.
Print Assumptions C09_joint_state_admits_only_leave.
Print Assumptions C09_left_running_is_ended.
Print Assumptions C09_left_running_has_record.
Print Assumptions C09_records_truthful.
Print Assumptions C09_running_keyed_by_own_region.
Print Assumptions C09_conf_ver_changed_bound.
Print Assumptions C09_foreign_change_cancels_core.
Print Assumptions C09_foreign_change_cancels.
Print Assumptions C09_foreign_change_cancels_needs_matching_remove_id.
Print Assumptions C09_cancel_before_bury_redundant.
Print Assumptions C09_step_accounting.
Print Assumptions C09_own_steps_never_stale.
Print Assumptions C09_stale_test_keeps_operator.
Print Assumptions C09_op_conf_ver_changed_is_sum.
Print Assumptions C09_unbound_store_receives_nothing.
Print Assumptions C09_rebind_delivers_nothing.
Print Assumptions C09_tidy_plans_are_monotone.
Print Assumptions C09_builder_joint_plans_monotone.
Print Assumptions C09_own_steps_never_stale_joint_builder.
Print Assumptions C09_builder_nonjoint_plans_monotone.
Print Assumptions C09_builder_plans_monotone.
Print Assumptions C09_own_steps_never_stale_builder.
Print Assumptions C09_builder_plans_monotone_bounded.
Print Assumptions C09_own_steps_never_stale_needs_monotonicity.
