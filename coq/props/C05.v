(* C05 — Local and global timestamps are mutually consistent.
   Statements only; proofs in proof/C05_Proof.v, structural obligations in proof/C05_Skel.v.

   A label list is one history: local requests of any dc with any counts, physical ticks of any
   allocator (arbitrary values: time-window updates), and the steps of the (serialized) Global
   request: estimate, the reads and writes of the SyncMaxTS handler one allocator at a time over all
   its rounds, the fall-back to the collected maximum, the persist and the answer.  Any number of
   dc-locations n >= 1, any initial memories.  A grant records (who, physical, raw logical, count,
   begin, end); the returned logical is  raw << bits + suffix  (suffix 0 for the Global allocator, d+1
   for dc number d).  `first g` is the first value of the range g, `val g` its last. *)
From Coq Require Import ZArith List.
From PDV Require Import lib.Base gen.Gen_C05 model.C05_TsoGlobal proof.C05_Proof proof.C05_Skel.
Import ListNotations.
Local Open Scope Z_scope.

Definition reach n b g0 l0 (ls : list label) : state := exec step (init n b g0 l0) ls.

(* a Global timestamp (all of its range) is greater than every Local timestamp whose request
   completed before the Global request began *)
Theorem C05_global_above_completed_locals :
  forall n b g0 l0 ls g l d, n <> 0%nat ->
    let s := reach n b g0 l0 ls in
    In g (grants s) -> In l (grants s) -> gwho g = WGlobal -> gwho l = WLocal d ->
    (gte l < gtb g)%nat -> tlt (val l) (first g).
Proof. intros n b g0 l0 ls g l d Hn s. apply (v_c1 _ (inv_exec n b g0 l0 ls Hn)). Qed.

(* every Local timestamp requested after a Global timestamp was returned is greater than it *)
Theorem C05_local_after_global_above :
  forall n b g0 l0 ls g l d, n <> 0%nat ->
    let s := reach n b g0 l0 ls in
    In g (grants s) -> In l (grants s) -> gwho g = WGlobal -> gwho l = WLocal d ->
    (gte g < gtb l)%nat -> tlt (val g) (first l).
Proof. intros n b g0 l0 ls g l d Hn s. apply (v_c2 _ (inv_exec n b g0 l0 ls Hn)). Qed.

(* Global timestamps are ordered by real time (in particular two Global ranges never overlap) *)
Theorem C05_global_ranges_ordered :
  forall n b g0 l0 ls g1 g2, n <> 0%nat ->
    let s := reach n b g0 l0 ls in
    In g1 (grants s) -> In g2 (grants s) -> gwho g1 = WGlobal -> gwho g2 = WGlobal ->
    (gte g1 < gtb g2)%nat -> tlt (val g1) (first g2).
Proof. intros n b g0 l0 ls g1 g2 Hn s. apply (v_c3 _ (inv_exec n b g0 l0 ls Hn)). Qed.

(* the raw order is the order of the returned timestamps, for any suffixes below 2^bits *)
Theorem C05_raw_order_is_returned_order :
  forall p1 r1 p2 r2 b s1 s2, 0 <= b -> 0 <= s1 < 2 ^ b -> 0 <= s2 < 2 ^ b ->
    tlt (p1, r1) (p2, r2) -> tlt (p1, differentiate r1 b s1) (p2, differentiate r2 b s2).
Proof. exact raw_lt_diff. Qed.

(* the client (client/client.go: firstLogical = addLogical(logical, -count+1, bits); i-th = addLogical(first, i, bits))
   hands out exactly the values of the server's range, suffix included *)
Theorem C05_client_batch_values :
  forall raw count b sfx i, 0 <= b ->
    add_logical (add_logical (differentiate raw b sfx) (- count + 1) b) i b = differentiate (raw - count + 1 + i) b sfx.
Proof. exact client_batch_value. Qed.

(* timestamps of different allocators are never equal, as long as both use the same suffix width *)
Theorem C05_cross_allocator_distinct_partial :
  forall r1 r2 b s1 s2, 0 <= b -> 0 <= s1 < 2 ^ b -> 0 <= s2 < 2 ^ b -> s1 <> s2 ->
    differentiate r1 b s1 <> differentiate r2 b s2.
Proof. intros r1 r2 b s1 s2 Hb H1 H2 Hne E. destruct (differentiate_injective _ _ _ _ _ Hb H1 H2 E). contradiction. Qed.

(* ... which the code only converges to: servers learn a new maximum suffix at different times *)
Definition C05_cross_allocator_distinct_full : Prop :=
  forall r1 r2 b1 b2 s1 s2, 0 <= b1 -> 0 <= b2 -> 0 <= s1 < 2 ^ b1 -> 0 <= s2 < 2 ^ b2 -> s1 <> s2 ->
    differentiate r1 b1 s1 <> differentiate r2 b2 s2.
Theorem C05_cross_allocator_distinct_full_refuted : ~ C05_cross_allocator_distinct_full.
Proof. intros H. apply (H 3 1 1 2 1 3); try lia. reflexivity. Qed.   (* dc-1 still at 1 bit: 3<<1+1 = 7 = 1<<2+3 : dc-3 at 2 bits *)

(* the suffix width reported with a timestamp is large enough for every suffix in use *)
Theorem C05_bits_cover_suffixes :
  forall max_suffix sfx, 0 <= sfx <= max_suffix -> sfx < 2 ^ cal_suffix_bits max_suffix.
Proof. exact bits_cover. Qed.

(* suffix assignment by one assigner at a time: a dc keeps its suffix, no two dcs share one, all are >= 1 *)
Theorem C05_suffix_stable_injective :
  forall dcs, let st := fold_left (fun st dc => fst (sfx_assign st dc)) dcs [] in
    sfx_ok st /\
    (forall dc dc' v, sfx_lookup st dc' = Some v -> sfx_lookup (fst (sfx_assign st dc)) dc' = Some v) /\
    (forall dc1 dc2 v, sfx_lookup st dc1 = Some v -> sfx_lookup st dc2 = Some v -> dc1 = dc2).
Proof.
  intros dcs st.
  assert (Hok : sfx_ok st).
  { subst st. assert (G : forall l s0, sfx_ok s0 -> sfx_ok (fold_left (fun st dc => fst (sfx_assign st dc)) l s0)).
    { induction l as [|d t IH]; intros s0 H0; cbn; [exact H0|apply IH, sfx_assign_ok, H0]. }
    apply G. split; [constructor|split; [constructor|intros q []]]. }
  split; [exact Hok|]. split; [intros; apply sfx_assign_stable; assumption|intros; eapply sfx_ok_injective; eauto].
Qed.

(* non-vacuity: two dcs, locals ahead of the Global allocator, a Global batch of 3 *)
Example C05_nonvacuous :
  let ls := [LLocalGen 0 5; LLocalGen 1 2; LGBegin 3 0; LGRead; LGRead; LGDecide; LGNextPass; LGRead; LLocalGen 0 1; LGRead; LGDecide;
             LGWrite; LGWrite; LGNextPass; LGWrite; LGWrite; LGNextPass; LGWrite; LGWrite; LGNextPass; LGPersist; LGRespond; LLocalGen 1 1] in
  let s := reach 2 2 (100, 0) (fun _ => (100, 10)) ls in
  map (fun g => (gwho g, gP g, gL g, gcount g)) (grants s) =
  [(WLocal 1, 100, 20, 1); (WGlobal, 100, 19, 3); (WLocal 0, 100, 16, 1); (WLocal 1, 100, 12, 2); (WLocal 0, 100, 15, 5)].
Proof. vm_compute. reflexivity. Qed.

Print Assumptions C05_global_above_completed_locals.
Print Assumptions C05_local_after_global_above.
Print Assumptions C05_global_ranges_ordered.
Print Assumptions C05_raw_order_is_returned_order.
Print Assumptions C05_client_batch_values.
Print Assumptions C05_cross_allocator_distinct_partial.
Print Assumptions C05_cross_allocator_distinct_full_refuted.
Print Assumptions C05_bits_cover_suffixes.
Print Assumptions C05_suffix_stable_injective.
