(* C05 — Local and global timestamps are mutually consistent.
   Statements only; proofs in proof/C05_Proof.v, structural obligations in proof/C05_Skel.v.

   A label list is one history: local requests of any dc with any counts, physical ticks of any
   allocator (arbitrary values: time-window updates), and the steps of the (serialized) Global
   request: estimate, the reads and writes of the SyncMaxTS handler one allocator at a time over all
   its rounds, the fall-back to the collected maximum, the persist and the answer.  Any number of
   dc-locations n >= 1, any initial memories.  A grant records (who, physical, raw logical, count,
   begin, end); the returned logical is  raw << bits + suffix  (suffix 0 for the Global allocator, d+1
   for dc number d).  `first g` is the first value of the range g, `val g` its last. *)
From Coq Require Import ZArith List.
From PDV Require Import lib.Base gen.Gen_C05 model.C05_TsoGlobal model.C05_Join proof.C05_Proof proof.C05_JoinProof proof.C05_Skel.
Import ListNotations.
Local Open Scope Z_scope.

Definition reach n b g0 l0 (ls : list label) : state := exec step (init n b g0 l0) ls.

(* a Global timestamp (all of its range) is greater than every Local timestamp whose request
   completed before the Global request began *)
Theorem C05_global_above_completed_locals :
  forall n b g0 l0 ls g l d, n <> 0%nat ->
    let s := reach n b g0 l0 ls in
    In g (grants s) -> In l (grants s) -> gwho g = WGlobal -> gwho l = WLocal d ->
    (gte l < gtb g)%nat -> tlt (val l) (first g).
Proof. intros n b g0 l0 ls g l d Hn s. apply (v_c1 _ (inv_exec n b g0 l0 ls Hn)). Qed.

(* every Local timestamp requested after a Global timestamp was returned is greater than it *)
Theorem C05_local_after_global_above :
  forall n b g0 l0 ls g l d, n <> 0%nat ->
    let s := reach n b g0 l0 ls in
    In g (grants s) -> In l (grants s) -> gwho g = WGlobal -> gwho l = WLocal d ->
    (gte g < gtb l)%nat -> tlt (val g) (first l).
Proof. intros n b g0 l0 ls g l d Hn s. apply (v_c2 _ (inv_exec n b g0 l0 ls Hn)). Qed.

(* Global timestamps are ordered by real time (in particular two Global ranges never overlap) *)
Theorem C05_global_ranges_ordered :
  forall n b g0 l0 ls g1 g2, n <> 0%nat ->
    let s := reach n b g0 l0 ls in
    In g1 (grants s) -> In g2 (grants s) -> gwho g1 = WGlobal -> gwho g2 = WGlobal ->
    (gte g1 < gtb g2)%nat -> tlt (val g1) (first g2).
Proof. intros n b g0 l0 ls g1 g2 Hn s. apply (v_c3 _ (inv_exec n b g0 l0 ls Hn)). Qed.

(* the raw order is the order of the returned timestamps, for any suffixes below 2^bits *)
Theorem C05_raw_order_is_returned_order :
  forall p1 r1 p2 r2 b s1 s2, 0 <= b -> 0 <= s1 < 2 ^ b -> 0 <= s2 < 2 ^ b ->
    tlt (p1, r1) (p2, r2) -> tlt (p1, differentiate r1 b s1) (p2, differentiate r2 b s2).
Proof. exact raw_lt_diff. Qed.

(* the client (client/client.go: firstLogical = addLogical(logical, -count+1, bits); i-th = addLogical(first, i, bits))
   hands out exactly the values of the server's range, suffix included *)
Theorem C05_client_batch_values :
  forall raw count b sfx i, 0 <= b ->
    add_logical (add_logical (differentiate raw b sfx) (- count + 1) b) i b = differentiate (raw - count + 1 + i) b sfx.
Proof. exact client_batch_value. Qed.

(* timestamps of different allocators are never equal, as long as both use the same suffix width *)
Theorem C05_cross_allocator_distinct_partial :
  forall r1 r2 b s1 s2, 0 <= b -> 0 <= s1 < 2 ^ b -> 0 <= s2 < 2 ^ b -> s1 <> s2 ->
    differentiate r1 b s1 <> differentiate r2 b s2.
Proof. intros r1 r2 b s1 s2 Hb H1 H2 Hne E. destruct (differentiate_injective _ _ _ _ _ Hb H1 H2 E). contradiction. Qed.

(* ... which the code only converges to: servers learn a new maximum suffix at different times *)
Definition C05_cross_allocator_distinct_full : Prop :=
  forall r1 r2 b1 b2 s1 s2, 0 <= b1 -> 0 <= b2 -> 0 <= s1 < 2 ^ b1 -> 0 <= s2 < 2 ^ b2 -> s1 <> s2 ->
    differentiate r1 b1 s1 <> differentiate r2 b2 s2.
Theorem C05_cross_allocator_distinct_full_refuted : ~ C05_cross_allocator_distinct_full.
Proof. intros H. apply (H 3 1 1 2 1 3); try lia. reflexivity. Qed.   (* dc-1 still at 1 bit: 3<<1+1 = 7 = 1<<2+3 : dc-3 at 2 bits *)

(* the suffix width reported with a timestamp is large enough for every suffix in use *)
Theorem C05_bits_cover_suffixes :
  forall max_suffix sfx, 0 <= sfx <= max_suffix -> sfx < 2 ^ cal_suffix_bits max_suffix.
Proof. exact bits_cover. Qed.

(* suffix assignment by one assigner at a time: a dc keeps its suffix, no two dcs share one, all are >= 1 *)
Theorem C05_suffix_stable_injective :
  forall dcs, let st := fold_left (fun st dc => fst (sfx_assign st dc)) dcs [] in
    sfx_ok st /\
    (forall dc dc' v, sfx_lookup st dc' = Some v -> sfx_lookup (fst (sfx_assign st dc)) dc' = Some v) /\
    (forall dc1 dc2 v, sfx_lookup st dc1 = Some v -> sfx_lookup st dc2 = Some v -> dc1 = dc2).
Proof.
  intros dcs st.
  assert (Hok : sfx_ok st).
  { subst st. assert (G : forall l s0, sfx_ok s0 -> sfx_ok (fold_left (fun st dc => fst (sfx_assign st dc)) l s0)).
    { induction l as [|d t IH]; intros s0 H0; cbn; [exact H0|apply IH, sfx_assign_ok, H0]. }
    apply G. split; [constructor|split; [constructor|intros q []]]. }
  split; [exact Hok|]. split; [intros; apply sfx_assign_stable; assumption|intros; eapply sfx_ok_injective; eauto].
Qed.

(* ---------------------------------------------------------------------------------------------------------
   Datacenters joining later, allocator leaders and the PD leadership moving (model/C05_Join.v): every member has
   its own idea of the suffix width (am.mu.maxSuffix); histories are lists of jlabel: the PD leader's checker
   meeting a dc (suffix assignment), a member's checker refreshing its width, an allocator leader starting on a
   member (first leader of a joined dc, or a move), a dc losing its leader, the PD leadership moving, Local
   answers, ticks and (atomic at this layer) Global answers. *)

(* different widths are harmless as long as both suffixes fit the smaller one ... *)
Theorem C05_distinct_when_suffixes_fit_smaller_width :
  forall r1 r2 b1 b2 s1 s2, 0 <= b1 -> 0 <= b2 -> 0 <= s1 < 2 ^ Z.min b1 b2 -> 0 <= s2 < 2 ^ Z.min b1 b2 -> s1 <> s2 ->
    differentiate r1 b1 s1 <> differentiate r2 b2 s2.
Proof. exact differentiate_distinct_fit. Qed.

(* ... and exactly then: equal values force the wider suffix to look like the other one in the narrow width, and such
   a suffix does collide *)
Theorem C05_equal_values_characterised :
  forall b1 b2 s1 s2, 0 <= b1 <= b2 -> 0 <= s1 < 2 ^ b1 -> 0 <= s2 ->
    ((exists r1 r2, differentiate r1 b1 s1 = differentiate r2 b2 s2) <-> s2 mod 2 ^ b1 = s1).
Proof.
  intros b1 b2 s1 s2 Hb H1 H2. split.
  - intros (r1 & r2 & E). eapply differentiate_eq_residue; eauto.
  - intros R. exists (0 * 2 ^ (b2 - b1) + s2 / 2 ^ b1), 0. apply differentiate_collision; assumption.
Qed.

(* an allocator leader that starts - a dc that joins, or a move - begins at or above the last Global timestamp
   handed out (GetMaxLocalTSO as repaired), so do all memories of led dcs at any time, and every Local answer lies
   above that Global timestamp at the raw level *)
Theorem C05_started_allocator_above_last_global :
  forall leader g0 ls dc m p s', jstep (jreach leader g0 ls) (JStart dc m p) = Some s' ->
    tle (jlastg s') (jl s' dc) /\ jhost s' dc = Some m.
Proof. intros leader g0 ls dc m p s'. apply start_above_last_global. apply jinv_exec. Qed.

Theorem C05_local_above_last_global_with_joins :
  forall leader g0 ls dc c s' r, jstep (jreach leader g0 ls) (JLocal dc c) = Some s' -> hd_error (jout s') = Some r ->
    tlt (jlastg (jreach leader g0 ls)) (jP r, jraw r - jcnt r + 1) /\ jwho r = Some dc.
Proof. intros leader g0 ls dc c s' r. apply local_above_last_global. apply jinv_exec. Qed.

(* the suffix width reported with an answer always covers the suffix used in that answer *)
Theorem C05_reported_width_covers_own_suffix :
  forall leader g0 ls r, In r (jout (jreach leader g0 ls)) -> 0 <= jsfx r < 2 ^ jw r.
Proof. intros leader g0 ls r. apply width_covers_own. apply jinv_exec. Qed.

(* while no serving member lags behind the largest suffix assigned: answers of different allocators differ whatever
   their raw logicals, the reported width covers every suffix, and a Local answer requested after a Global answer was
   returned is greater in the returned order (for that last clause it is enough that the answering member does not lag) *)
Theorem C05_no_lag_allocators_distinct :
  forall leader g0 ls, let s := jreach leader g0 ls in no_lag s ->
    (forall dc1 dc2 m1 m2 v1 v2 r1 r2, dc1 <> dc2 -> jhost s dc1 = Some m1 -> jhost s dc2 = Some m2 ->
       sfx_lookup (jstore s) dc1 = Some v1 -> sfx_lookup (jstore s) dc2 = Some v2 ->
       differentiate r1 (width_of s m1) v1 <> differentiate r2 (width_of s m2) v2) /\
    (forall dc m v r1 r2, jhost s dc = Some m -> sfx_lookup (jstore s) dc = Some v ->
       differentiate r1 (width_of s (jpdl s)) 0 <> differentiate r2 (width_of s m) v).
Proof.
  intros leader g0 ls s NL. pose proof (jinv_exec leader g0 ls) as I. split.
  - intros. eapply nolag_distinct_locals; eauto.
  - intros. eapply nolag_distinct_global_local; eauto.
Qed.

Theorem C05_no_lag_width_covers_every_suffix :
  forall leader g0 ls dc m dc' v', let s := jreach leader g0 ls in no_lag s ->
    jhost s dc = Some m -> sfx_lookup (jstore s) dc' = Some v' -> v' < 2 ^ width_of s m.
Proof. intros leader g0 ls dc m dc' v' s NL. apply nolag_width_covers_all; [apply jinv_exec | exact NL]. Qed.

Theorem C05_local_after_global_returned_with_joins :
  forall leader g0 ls g dc m c s' r, let s := jreach leader g0 ls in
    In g (jout s) -> jwho g = None -> 0 <= jraw g ->
    jhost s dc = Some m -> sfx_max (jstore s) <= jview s m ->
    jstep s (JLocal dc c) = Some s' -> hd_error (jout s') = Some r ->
    forall i, 0 <= i < jcnt r ->
    jP g < jP r \/ (jP g = jP r /\ jlogical g < differentiate (jraw r - i) (jw r) (jsfx r)).
Proof. intros leader g0 ls g dc m c s' r s. apply local_after_global_returned. apply jinv_exec. Qed.

(* A Global request in flight (JGBegin .. JGEnd, any labels in between) is inside the histories above.  A starting
   allocator reads the maximum it begins from under the same mutex as the Global request (syncMu, the repaired code:
   jstep = jstep_gen true): the start waits for the request to end.  Without that exclusion (jstep_gen false, the code
   before the repair) a dc that joins while a request is in flight hands out a Local timestamp below the Global answer
   returned before - the history the driver forces on the real cluster with a slow SyncMaxTS request. *)
Theorem C05_join_without_exclusion_breaks_local_after_global :
  let s := exec (jstep_gen false) (jinit 0 (5000, 0)) unexcluded_history in
  exists g r, nth_error (jout s) 1 = Some g /\ nth_error (jout s) 0 = Some r /\
    jwho g = None /\ jwho r = Some 2%nat /\ jP r = jP g /\ jraw r < jraw g /\ jlogical r < jlogical g.
Proof. exact unexcluded_join_breaks_local_after_global. Qed.

Theorem C05_join_waits_for_global_request_in_flight :
  let s := exec jstep (jinit 0 (5000, 0)) [JCheckLeader 1; JStart 1 0 1000; JGlobal 1; JGBegin 3; JCheckLeader 2] in
  jstep s (JStart 2 0 1000) = None.
Proof. exact excluded_join_waits. Qed.

(* without that proviso the three clauses fail, on the history the driver's cluster phase runs against three real
   members (dc-4 and dc-5 join; the members serving dc-1..dc-3 have not refreshed their width yet): *)
Definition C05_allocators_distinct_with_joins : Prop :=
  forall leader g0 ls a b, In a (jout (jreach leader g0 ls)) -> In b (jout (jreach leader g0 ls)) ->
    who_eqb (jwho a) (jwho b) = false -> shares_value a b = false.
Theorem C05_allocators_distinct_with_joins_refuted : ~ C05_allocators_distinct_with_joins.
Proof.
  intros H. destruct lag_equal_timestamps as (a & b & Ha & Hb & Hw & Hs).
  rewrite (H 1%nat (1000, 0) cluster_history a b Ha Hb Hw) in Hs. discriminate.
Qed.

Definition C05_width_covers_every_suffix_with_joins : Prop :=
  forall leader g0 ls r v, In r (jout (jreach leader g0 ls)) -> In v (map snd (jstore (jreach leader g0 ls))) -> v < 2 ^ jw r.
Theorem C05_width_covers_every_suffix_with_joins_refuted : ~ C05_width_covers_every_suffix_with_joins.
Proof.
  intros H. destruct lag_width_too_small as (r & v & Hr & Hv & Hle).
  pose proof (H 1%nat (1000, 0) cluster_history r v Hr Hv) as H1. lia.
Qed.

Definition C05_local_after_global_greater_with_joins : Prop :=
  forall leader g0 ls i j g r, nth_error (jout (jreach leader g0 ls)) i = Some g -> nth_error (jout (jreach leader g0 ls)) j = Some r ->
    (j < i)%nat -> jwho g = None -> jwho r <> None -> jP g = jP r -> jlogical g < jlogical r.
Theorem C05_local_after_global_greater_with_joins_refuted : ~ C05_local_after_global_greater_with_joins.
Proof.
  intros H. destruct lag_local_below_earlier_global as (g & r & Hg & Hr & Wg & Wr & HP & Hlt).
  assert (Wr' : jwho r <> None) by (rewrite Wr; discriminate).
  pose proof (H 1%nat (1000, 0) cluster_history 3%nat 2%nat g r Hg Hr ltac:(lia) Wg Wr' HP) as H1. lia.
Qed.

(* the join history is non-vacuous for the positive theorems too: dc-4 starts one hour ahead, at the last Global answer *)
Example C05_join_history_values :
  let s := jreach 1 (1000, 0) cluster_history in
  (map (fun r => (jwho r, jP r, jraw r, jcnt r, jsfx r, jw r)) (jout s), jlastg s) =
  ([(Some 5%nat, 3601000, 27, 24, 5, 3); (Some 1%nat, 3601000, 28, 24, 1, 2); (Some 1%nat, 3601000, 4, 1, 1, 2);
    (None, 3601000, 3, 1, 0, 3); (Some 4%nat, 3601000, 2, 1, 4, 3); (None, 3601000, 1, 1, 0, 2); (None, 1000, 1, 1, 0, 2)],
   (3601000, 3)).
Proof. vm_compute. reflexivity. Qed.

(* non-vacuity: two dcs, locals ahead of the Global allocator, a Global batch of 3 *)
Example C05_nonvacuous :
  let ls := [LLocalGen 0 5; LLocalGen 1 2; LGBegin 3 0; LGRead; LGRead; LGDecide; LGNextPass; LGRead; LLocalGen 0 1; LGRead; LGDecide;
             LGWrite; LGWrite; LGNextPass; LGWrite; LGWrite; LGNextPass; LGWrite; LGWrite; LGNextPass; LGPersist; LGRespond; LLocalGen 1 1] in
  let s := reach 2 2 (100, 0) (fun _ => (100, 10)) ls in
  map (fun g => (gwho g, gP g, gL g, gcount g)) (grants s) =
  [(WLocal 1, 100, 20, 1); (WGlobal, 100, 19, 3); (WLocal 0, 100, 16, 1); (WLocal 1, 100, 12, 2); (WLocal 0, 100, 15, 5)].
Proof. vm_compute. reflexivity. Qed.

Print Assumptions C05_global_above_completed_locals.
Print Assumptions C05_local_after_global_above.
Print Assumptions C05_global_ranges_ordered.
Print Assumptions C05_raw_order_is_returned_order.
Print Assumptions C05_client_batch_values.
Print Assumptions C05_cross_allocator_distinct_partial.
Print Assumptions C05_cross_allocator_distinct_full_refuted.
Print Assumptions C05_bits_cover_suffixes.
Print Assumptions C05_suffix_stable_injective.
Print Assumptions C05_distinct_when_suffixes_fit_smaller_width.
Print Assumptions C05_equal_values_characterised.
Print Assumptions C05_started_allocator_above_last_global.
Print Assumptions C05_local_above_last_global_with_joins.
Print Assumptions C05_reported_width_covers_own_suffix.
Print Assumptions C05_no_lag_allocators_distinct.
Print Assumptions C05_no_lag_width_covers_every_suffix.
Print Assumptions C05_local_after_global_returned_with_joins.
Print Assumptions C05_allocators_distinct_with_joins_refuted.
Print Assumptions C05_width_covers_every_suffix_with_joins_refuted.
Print Assumptions C05_local_after_global_greater_with_joins_refuted.
Print Assumptions C05_join_without_exclusion_breaks_local_after_global.
Print Assumptions C05_join_waits_for_global_request_in_flight.
