(* C07 — Region lookups and per-store statistics match the cached region set.
   Statements only; proofs in proof/C07_*.v.

   Quantification: `ops` is any finite history of SetRegion (OSet) / RemoveRegion of a cached id (ORemove)
   and queries, over arbitrary byte-string keys (empty end key = +infinity), ids, peers, leaders, sizes.
   `state_of ops` is the executable model of core.RegionsInfo (model/C07_Region.v: region_tree.go and region.go
   transcribed over the ordered-list specification L0 of pkg/btree); `spec_of ops` is the plain list of the
   current regions (a put removes every region it overlaps and the older version of the same id).
   `wf_op`: every put region has a valid key range (start < end or end empty), its pending peers sit on stores
   where it has a peer, and no two of its peers (or pending peers) share a store.  The last two conditions are
   the excluded classes of the _partial theorems; without them the code itself violates the clause (_refuted).

   Dependencies named, not hidden: L0 = pkg/btree (driver correspondence with degrees 2,3,4,64 incl. rank
   queries; proof/C07_BTree.v for the order statistics), model = code (driver correspondence after every
   operation with all query methods; proof/C07_Skel.v ties every transcribed function body to the source). *)
From Coq Require Import Sorting.Sorted.
From PDV Require Import lib.Base lib.C07_Key gen.Gen_C07 model.C07_BTreeSpec model.C07_Region
  proof.C07_Sorted proof.C07_Tree proof.C07_RegionProof proof.C07_Spec proof.C07_Spec2 proof.C07_Monitor proof.C07_BTree proof.C07_Skel.
Local Open Scope Z_scope.

(* number of indexed regions = number of cached regions = number of current regions; ids unique *)
Theorem C07_tree_eq_map : forall ops, Forall wf_op ops ->
  length (regs (state_of ops)) = length (items (tree (state_of ops))) /\
  length (items (tree (state_of ops))) = length (spec_of ops) /\
  NoDup (map r_id (items (tree (state_of ops)))).
Proof. exact tree_eq_map_pf. Qed.

(* the index is sorted by start key and its ranges are pairwise disjoint *)
Theorem C07_tree_sorted_disjoint : forall ops, Forall wf_op ops ->
  Forall validP (items (tree (state_of ops))) /\ StronglySorted before (items (tree (state_of ops))).
Proof. exact tree_sorted_disjoint_pf. Qed.

(* size counters of the main tree and of every per-store sub-tree (leader/follower/learner/pending) *)
Theorem C07_total_size_exact_partial : forall ops, Forall wf_op ops ->
  total_size (tree (state_of ops)) = sum_size (spec_of ops) /\
  forall f s, total_size (fam_of (state_of ops) f s) = sum_size (spec_fam (spec_of ops) f s).
Proof. exact total_size_exact_pf. Qed.

Definition C07_total_size_exact_full : Prop := total_size_exact_full.
Theorem C07_total_size_exact_refuted : ~ C07_total_size_exact_full.
Proof. exact total_size_exact_refuted_pf. Qed.

(* the sub-tree of family f on store s holds exactly the current regions whose peers/leader/pending say so *)
Theorem C07_subtrees_exact_partial : forall ops, Forall wf_op ops ->
  forall f s, items (fam_of (state_of ops) f s) = spec_fam (spec_of ops) f s /\
              rt_len (fam_of (state_of ops) f s) = Z.of_nat (length (spec_fam (spec_of ops) f s)).
Proof. exact subtrees_exact_pf. Qed.

Definition C07_subtrees_exact_full : Prop := subtrees_exact_full.
Theorem C07_subtrees_exact_refuted : ~ C07_subtrees_exact_full.
Proof. exact subtrees_exact_refuted_pf. Qed.

(* lookups *)
Theorem C07_get_region_is_cached : forall ops, Forall wf_op ops ->
  forall id, get_region (state_of ops) id = List.find (fun r => r_id r =? id) (spec_of ops).
Proof. exact get_region_is_cached_pf. Qed.

Theorem C07_search_is_linear_scan : forall ops, Forall wf_op ops ->
  forall k, search_region (state_of ops) k = List.find (fun r => contains r k) (spec_of ops).
Proof. exact search_is_linear_scan_pf. Qed.

Theorem C07_scan_range_is_linear_scan : forall ops, Forall wf_op ops ->
  forall s e lim, scan (state_of ops) s e lim = map Some (spec_scan (spec_of ops) s e lim).
Proof. exact scan_range_is_linear_scan_pf. Qed.

Theorem C07_overlaps_is_linear_scan : forall ops, Forall wf_op ops ->
  forall r, valid_range r = true ->
  get_overlaps (tree (state_of ops)) r = sort_regions (filter (fun x => overlaps x r) (spec_of ops)).
Proof. exact overlaps_is_linear_scan_pf. Qed.

Theorem C07_set_region_displaces : forall ops, Forall wf_op ops -> forall r, wf_region r = true ->
  snd (set_region (state_of ops) r) =
  sort_regions (filter (fun x => negb (r_id x =? r_id r) && overlaps x r) (spec_of ops)).
Proof. exact set_region_displaces_pf. Qed.

(* previous-region lookup: the region that contains k, then the region that ends where it starts *)
Theorem C07_search_prev_is_linear_scan : forall ops, Forall wf_op ops ->
  forall k, search_prev_region (state_of ops) k = spec_prev (spec_of ops) k.
Proof. exact search_prev_is_linear_scan_pf. Qed.

(* adjacent regions of an arbitrary region r: the region that ends at r's start key, and the next region in
   key order after r's start key if it starts exactly at r's end key *)
Theorem C07_adjacent_is_linear_scan : forall ops, Forall wf_op ops ->
  forall r, adjacent (state_of ops) r = spec_adjacent (spec_of ops) r.
Proof. exact adjacent_is_linear_scan_pf. Qed.

(* random picks (RandLeaderRegion & co.): whatever rand returns, a non-nil pick is a current region with that
   role on that store lying inside the key range ... *)
Theorem C07_random_pick_sound : forall ops, Forall wf_op ops ->
  forall f s ks ke draws x, random_one (fam_of (state_of ops) f s) ks ke draws = Some (Some x) ->
  In x (filter (fun r => involved r ks ke) (spec_fam (spec_of ops) f s)).
Proof. exact random_pick_sound_pf. Qed.

Theorem C07_random_pick_many_sound : forall ops, Forall wf_op ops ->
  forall f s ranges x, In x (snd (random_many (fam_of (state_of ops) f s) ranges)) ->
  exists se, In se ranges /\ In x (filter (fun r => involved r (fst se) (snd se)) (spec_fam (spec_of ops) f s)).
Proof. exact random_many_sound_pf. Qed.

(* ... and every such region sits at an index of the interval the code samples from (positive probability) *)
Theorem C07_random_pick_candidates_complete : forall ops, Forall wf_op ops ->
  forall f s ks ke x, In x (filter (fun r => involved r ks ke) (spec_fam (spec_of ops) f s)) ->
  let '(si, ei) := rand_interval (fam_of (state_of ops) f s) ks ke in
  exists d, 0 <= d < ei - si /\ l0_get_at (si + d) (items (fam_of (state_of ops) f s)) = Some x.
Proof. exact random_pick_complete_pf. Qed.

(* the boolean property the check evaluates on implementation traces (ri_monitor_from: every observation equals
   what the linear-scan specification expects) holds on every model trace of the domain; OAll / ORandN, whose model
   observation is a set, are compared as sets by the correspondence check instead *)
Theorem C07_monitor_silent_on_model : forall ops, Forall wf_op ops -> Forall plain_op ops ->
  ri_monitor_from [] ops (ri_run ri_empty ops) = None.
Proof. exact monitor_silent_pf. Qed.

(* ---- pkg/btree, the part PD added (order statistics): stage 2, first part ----
   `idx_of sizes` is the `indices` array of a node whose children have these sizes.  Each bookkeeping function is
   the corresponding operation on the size list, and getAt on a node with correct indices is the k-th element of
   the in-order walk.  (Split / steal / merge on whole nodes and GetWithIndex: differential check only.) *)
Theorem C07_btree_indices_addAt : forall a s b d acc,
  add_at (length a) d (idx_from acc (a ++ s :: b)) = idx_from acc (a ++ (s + d) :: b).
Proof. exact add_at_spec. Qed.
Theorem C07_btree_indices_insertAt : forall a b sz, insert_at (length a) sz (idx_of (a ++ b)) = idx_of (a ++ sz :: b).
Proof. exact insert_at_spec. Qed.
Theorem C07_btree_indices_push : forall ss sz, push sz (idx_of ss) = idx_of (ss ++ [sz]).
Proof. exact push_spec. Qed.
Theorem C07_btree_indices_split : forall a s b nxt,
  split (length a) nxt (idx_of (a ++ s :: b)) = idx_of (a ++ (s - 1 - nxt) :: nxt :: b).
Proof. exact split_spec. Qed.
Theorem C07_btree_indices_merge : forall a s1 s2 b,
  merge (length a) (idx_of (a ++ s1 :: s2 :: b)) = idx_of (a ++ (s1 + 1 + s2) :: b).
Proof. exact merge_spec. Qed.
Theorem C07_btree_indices_removeAt : forall a s b, remove_at (length a) (idx_of (a ++ s :: b)) = (s, idx_of (a ++ b)).
Proof. exact remove_at_spec. Qed.
Theorem C07_btree_indices_pop : forall a s, pop (idx_of (a ++ [s])) = (s, idx_of a).
Proof. exact pop_spec. Qed.
Theorem C07_btree_get_at : forall (A : Type) (n : @bnode A), wf n ->
  forall k, 0 <= k -> get_at n k = nth_error (flatten n) (Z.to_nat k).
Proof. exact @get_at_spec. Qed.

(* non-vacuity: a history inside the domain with a split-like overlap, an in-place update, a swallowing put
   and a removal; the swallowing region is what remains *)
Example C07_nonvacuous :
  let p := [Peer 1 1 false; Peer 2 2 false; Peer 3 3 true] in
  let ops := [OSet (Region 1 [] [] p 1 [Peer 2 2 false] 10 1 1 1 1);
              OSet (Region 2 [] (K [99]) p 2 [] 4 2 1 1 2);
              OSet (Region 1 (K [99]) [] p 1 [] 6 2 1 1 3);
              OSet (Region 1 (K [99]) [] p 3 [] 7 2 1 1 4);
              OSet (Region 3 (K [100]) (K [102]) p 1 [] 5 1 1 1 5);
              OSet (Region 4 (K [98]) (K [101]) p 1 [] 9 3 1 1 6);
              OSet (Region 5 (K [120]) [] p 1 [] 2 1 1 1 7);
              ORemove 5] in
  Forall wf_op ops /\ map r_id (items (tree (state_of ops))) = [4] /\
  rt_len (leaders (state_of ops) 1) = 1 /\ total_size (followers (state_of ops) 2) = 9.
Proof. cbn zeta. split; [repeat constructor|]. vm_compute. auto. Qed.

Print Assumptions C07_tree_eq_map.
Print Assumptions C07_tree_sorted_disjoint.
Print Assumptions C07_total_size_exact_partial.
Print Assumptions C07_total_size_exact_refuted.
Print Assumptions C07_subtrees_exact_partial.
Print Assumptions C07_subtrees_exact_refuted.
Print Assumptions C07_get_region_is_cached.
Print Assumptions C07_search_is_linear_scan.
Print Assumptions C07_scan_range_is_linear_scan.
Print Assumptions C07_overlaps_is_linear_scan.
Print Assumptions C07_set_region_displaces.
Print Assumptions C07_search_prev_is_linear_scan.
Print Assumptions C07_adjacent_is_linear_scan.
Print Assumptions C07_random_pick_sound.
Print Assumptions C07_random_pick_many_sound.
Print Assumptions C07_random_pick_candidates_complete.
Print Assumptions C07_monitor_silent_on_model.
Print Assumptions C07_btree_indices_split.
Print Assumptions C07_btree_indices_merge.
Print Assumptions C07_btree_get_at.
