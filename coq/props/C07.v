(* C07 — Region lookups and per-store statistics match the cached region set.
   Statements only; proofs in proof/C07_*.v.

   Quantification: `ops` is any finite history of SetRegion (OSet) / RemoveRegion of a cached id (ORemove)
   and queries, over arbitrary byte-string keys (empty end key = +infinity), ids, peers, leaders, sizes.
   `state_of ops` is the executable model of core.RegionsInfo (model/C07_Region.v: region_tree.go and region.go
   transcribed over the ordered-list specification L0 of pkg/btree); `spec_of ops` is the plain list of the
   current regions (a put removes every region it overlaps and the older version of the same id).
   `wf_op`: every put region has a valid key range (start < end or end empty), its pending peers sit on stores
   where it has a peer, and no two of its peers (or pending peers) share a store.  The last two conditions are
   the excluded classes of the _partial theorems; without them the code itself violates the clause (_refuted).

   Dependencies named, not hidden: L0 = pkg/btree is now a theorem about the Gallina transcription of pkg/btree
   (C07_btree_* below: representation invariant + refinement of L0 for any degree and any strict weak order;
   transcription = code by the body ties and the driver's observation-and-shape comparison), model = code (driver correspondence after every
   operation with all query methods; proof/C07_Skel.v ties every transcribed function body to the source). *)
From Coq Require Import Sorting.Sorted Permutation.
From PDV Require Import lib.Base lib.C07_Key gen.Gen_C07 model.C07_BTreeSpec model.C07_Region
  proof.C07_Sorted proof.C07_Tree proof.C07_RegionProof proof.C07_Spec proof.C07_Spec2 proof.C07_Monitor proof.C07_BTree proof.C07_Skel
  model.C07_BTree proof.C07_BTreeOrder proof.C07_BTreeRefine proof.C07_BTreeSim proof.C07_BTreeRegion proof.C07_SortPeers.
Local Open Scope Z_scope.

(* number of indexed regions = number of cached regions = number of current regions; ids unique *)
Theorem C07_tree_eq_map : forall ops, Forall wf_op ops ->
  length (regs (state_of ops)) = length (items (tree (state_of ops))) /\
  length (items (tree (state_of ops))) = length (spec_of ops) /\
  NoDup (map r_id (items (tree (state_of ops)))).
Proof. exact tree_eq_map_pf. Qed.

(* the index is sorted by start key and its ranges are pairwise disjoint *)
Theorem C07_tree_sorted_disjoint : forall ops, Forall wf_op ops ->
  Forall validP (items (tree (state_of ops))) /\ StronglySorted before (items (tree (state_of ops))).
Proof. exact tree_sorted_disjoint_pf. Qed.

(* size counters of the main tree and of every per-store sub-tree (leader/follower/learner/pending) *)
Theorem C07_total_size_exact_partial : forall ops, Forall wf_op ops ->
  total_size (tree (state_of ops)) = sum_size (spec_of ops) /\
  forall f s, total_size (fam_of (state_of ops) f s) = sum_size (spec_fam (spec_of ops) f s).
Proof. exact total_size_exact_pf. Qed.

Definition C07_total_size_exact_full : Prop := total_size_exact_full.
Theorem C07_total_size_exact_refuted : ~ C07_total_size_exact_full.
Proof. exact total_size_exact_refuted_pf. Qed.

(* the sub-tree of family f on store s holds exactly the current regions whose peers/leader/pending say so *)
Theorem C07_subtrees_exact_partial : forall ops, Forall wf_op ops ->
  forall f s, items (fam_of (state_of ops) f s) = spec_fam (spec_of ops) f s /\
              rt_len (fam_of (state_of ops) f s) = Z.of_nat (length (spec_fam (spec_of ops) f s)).
Proof. exact subtrees_exact_pf. Qed.

Definition C07_subtrees_exact_full : Prop := subtrees_exact_full.
Theorem C07_subtrees_exact_refuted : ~ C07_subtrees_exact_full.
Proof. exact subtrees_exact_refuted_pf. Qed.

(* lookups *)
Theorem C07_get_region_is_cached : forall ops, Forall wf_op ops ->
  forall id, get_region (state_of ops) id = List.find (fun r => r_id r =? id) (spec_of ops).
Proof. exact get_region_is_cached_pf. Qed.

Theorem C07_search_is_linear_scan : forall ops, Forall wf_op ops ->
  forall k, search_region (state_of ops) k = List.find (fun r => contains r k) (spec_of ops).
Proof. exact search_is_linear_scan_pf. Qed.

Theorem C07_scan_range_is_linear_scan : forall ops, Forall wf_op ops ->
  forall s e lim, scan (state_of ops) s e lim = map Some (spec_scan (spec_of ops) s e lim).
Proof. exact scan_range_is_linear_scan_pf. Qed.

Theorem C07_overlaps_is_linear_scan : forall ops, Forall wf_op ops ->
  forall r, valid_range r = true ->
  get_overlaps (tree (state_of ops)) r = sort_regions (filter (fun x => overlaps x r) (spec_of ops)).
Proof. exact overlaps_is_linear_scan_pf. Qed.

Theorem C07_set_region_displaces : forall ops, Forall wf_op ops -> forall r, wf_region r = true ->
  snd (set_region (state_of ops) r) =
  sort_regions (filter (fun x => negb (r_id x =? r_id r) && overlaps x r) (spec_of ops)).
Proof. exact set_region_displaces_pf. Qed.

(* previous-region lookup: the region that contains k, then the region that ends where it starts *)
Theorem C07_search_prev_is_linear_scan : forall ops, Forall wf_op ops ->
  forall k, search_prev_region (state_of ops) k = spec_prev (spec_of ops) k.
Proof. exact search_prev_is_linear_scan_pf. Qed.

(* adjacent regions of an arbitrary region r: the region that ends at r's start key, and the next region in
   key order after r's start key if it starts exactly at r's end key *)
Theorem C07_adjacent_is_linear_scan : forall ops, Forall wf_op ops ->
  forall r, adjacent (state_of ops) r = spec_adjacent (spec_of ops) r.
Proof. exact adjacent_is_linear_scan_pf. Qed.

(* random picks (RandLeaderRegion & co.): whatever rand returns, a non-nil pick is a current region with that
   role on that store lying inside the key range ... *)
Theorem C07_random_pick_sound : forall ops, Forall wf_op ops ->
  forall f s ks ke draws x, random_one (fam_of (state_of ops) f s) ks ke draws = Some (Some x) ->
  In x (filter (fun r => involved r ks ke) (spec_fam (spec_of ops) f s)).
Proof. exact random_pick_sound_pf. Qed.

Theorem C07_random_pick_many_sound : forall ops, Forall wf_op ops ->
  forall f s ranges x, In x (snd (random_many (fam_of (state_of ops) f s) ranges)) ->
  exists se, In se ranges /\ In x (filter (fun r => involved r (fst se) (snd se)) (spec_fam (spec_of ops) f s)).
Proof. exact random_many_sound_pf. Qed.

(* ... and every such region sits at an index of the interval the code samples from (positive probability) *)
Theorem C07_random_pick_candidates_complete : forall ops, Forall wf_op ops ->
  forall f s ks ke x, In x (filter (fun r => involved r ks ke) (spec_fam (spec_of ops) f s)) ->
  let '(si, ei) := rand_interval (fam_of (state_of ops) f s) ks ke in
  exists d, 0 <= d < ei - si /\ l0_get_at (si + d) (items (fam_of (state_of ops) f s)) = Some x.
Proof. exact random_pick_complete_pf. Qed.

(* the boolean property the check evaluates on implementation traces (ri_monitor_from: every observation equals
   what the linear-scan specification expects) holds on every model trace of the domain; OAll / ORandN, whose model
   observation is a set, are compared as sets by the correspondence check instead *)
Theorem C07_monitor_silent_on_model : forall ops, Forall wf_op ops -> Forall plain_op ops ->
  ri_monitor_from [] ops (ri_run ri_empty ops) = None.
Proof. exact monitor_silent_pf. Qed.

(* ---- pkg/btree itself: stage 2 ----
   model/C07_BTree.v is a Gallina B-tree of arbitrary degree (nodes with items / children / indices; insert with
   split, remove with steal-left / steal-right / merge, get, getWithIndex, getAt, min, max, iterate in both
   directions, ReplaceOrInsert, deleteItem) transcribed from pkg/btree/btree.go (proof/C07_Skel.v ties every
   transcribed body; the driver compares observations AND node shapes with the real package).
   `tinv ltb t` is its representation invariant: all leaves at the same depth, every node but the root holds between
   degree-1 and 2*degree-1 items, an internal node with k items has k+1 children, indices[i] = number of items in
   children 0..i plus i, the in-order walk is strictly sorted for `ltb`, `length` is its length.
   `tabs t` is the in-order walk.  For ANY strict weak order `ltb` (Item.Less) and any degree >= 2 every operation
   keeps the invariant, never reaches a panic of the Go code (result Some), and on the abstraction IS the L0 operation. *)
Definition strict_weak_order {A : Type} (ltb : A -> A -> bool) : Prop :=
  (forall a, ltb a a = false) /\
  (forall a b c, ltb a b = true -> ltb b c = true -> ltb a c = true) /\
  (forall a b c, ltb a b = false -> ltb b c = false -> ltb a c = false).

Theorem C07_btree_empty_ok : forall (A : Type) (ltb : A -> A -> bool) d, (2 <= d)%nat ->
  tinv ltb (bt_new d) /\ tabs (bt_new (A := A) d) = [].
Proof. intros A ltb d D. split; [apply tinv_new, D|reflexivity]. Qed.

Theorem C07_btree_replace_or_insert_refines : forall (A : Type) (ltb : A -> A -> bool), strict_weak_order ltb ->
  forall t x, tinv ltb t ->
  exists t' out, replace_or_insert ltb t x = Some (t', out) /\ tinv ltb t' /\ bt_degree t' = bt_degree t /\
                 l0_insert ltb x (tabs t) = (tabs t', out).
Proof. intros A ltb (H1 & H2 & H3). exact (replace_or_insert_spec ltb H1 H2 H3). Qed.

Theorem C07_btree_delete_refines : forall (A : Type) (ltb : A -> A -> bool), strict_weak_order ltb ->
  forall t typ, tinv ltb t ->
  exists t' out, delete_item ltb t typ = Some (t', out) /\ tinv ltb t' /\ bt_degree t' = bt_degree t /\
                 (match typ with
                  | RemoveItem x => l0_delete ltb x (tabs t)
                  | RemoveMin => l0_delete_min (tabs t)
                  | RemoveMax => l0_delete_max (tabs t)
                  end) = (tabs t', out).
Proof.
  intros A ltb (H1 & H2 & H3) t typ T. destruct (delete_item_spec ltb H1 H2 H3 t typ T) as (t' & out & H).
  exists t', out. destruct typ; exact H.
Qed.

(* the fuel the model gives its recursive functions (root height + 1) is enough: results do not depend on it *)
Theorem C07_btree_queries_refine : forall (A : Type) (ltb : A -> A -> bool), strict_weak_order ltb ->
  forall t, tinv ltb t ->
  let q {X} (dflt : X) (f : node A -> nat -> X) := match bt_root t with Some r => f r (S (height r)) | None => dflt end in
  (forall x, q None (fun r h => get ltb h r x) = l0_get ltb x (tabs t)) /\
  (forall x, q (None, 0) (fun r h => get_with_index ltb h r x) = (l0_get ltb x (tabs t), Z.of_nat (l0_rank ltb x (tabs t)))) /\
  (forall k, q None (fun r h => get_at h r k) = l0_get_at k (tabs t)) /\
  (forall x, q [] (fun r h => ascend_from ltb h r (Some x)) = l0_ascend_ge ltb x (tabs t)) /\
  (forall x, q [] (fun r h => fst (descend_from ltb h r x false)) = l0_descend_le ltb x (tabs t)) /\
  q None (fun r h => node_min h r) = hd_error (tabs t) /\
  q None (fun r h => node_max h r) = hd_error (rev (tabs t)) /\
  bt_length t = Z.of_nat (length (tabs t)).
Proof.
  intros A ltb (H1 & H2 & H3) t T. cbv zeta beta. repeat split; intros.
  - apply (q_get ltb H1 H2 H3 t T).
  - apply (q_get_with_index ltb H1 H2 H3 t T).
  - apply (q_get_at ltb t T).
  - apply (q_ascend ltb H1 H2 H3 t T).
  - apply (q_descend ltb H1 H2 H3 t T).
  - apply (q_min ltb t T).
  - apply (q_max ltb t T).
  - apply (tinv_length ltb t T).
Qed.

Theorem C07_btree_region_item_order : strict_weak_order rlt.
Proof. split; [exact rlt_irrefl|split; [exact rlt_trans|exact rlt_negtrans]]. Qed.

(* regionItem.Less (the order of the start keys) is such an order: the trees of core.regionTree *)
Theorem C07_btree_region_items_refine : forall t r, tinv rlt t ->
  (exists t' out, replace_or_insert rlt t r = Some (t', out) /\ tinv rlt t' /\ bt_degree t' = bt_degree t /\
                  l0_insert rlt r (tabs t) = (tabs t', out)) /\
  (exists t' out, delete_item rlt t (RemoveItem r) = Some (t', out) /\ tinv rlt t' /\ bt_degree t' = bt_degree t /\
                  l0_delete rlt r (tabs t) = (tabs t', out)).
Proof. intros t r T. split; [apply region_btree_insert, T|apply region_btree_delete, T]. Qed.

(* Int items, whole runs: for every degree >= 2 and every operation list of the driver's alphabet (insert, delete,
   delete-min/max, get, GetWithIndex, GetAt, both iterations, Len, Min, Max, all ranks) the Gallina B-tree gives
   the observations of the list specification, and every intermediate tree satisfies the invariant *)
Theorem C07_btree_refines_list_spec : forall d ops, (2 <= d)%nat ->
  map (option_map fst) (bt2_run (bt_new d) ops) = map Some (bt_run [] ops) /\
  Forall (shape_ok d) (bt2_run (bt_new d) ops).
Proof. exact btree_refines_spec. Qed.

(* the bookkeeping of `indices` in terms of the sizes of the children (used by the proofs above) *)
Theorem C07_btree_indices_addAt : forall a s b d acc,
  ix_add_at (length a) d (idx_from acc (a ++ s :: b)) = idx_from acc (a ++ (s + d) :: b).
Proof. exact add_at_spec. Qed.
Theorem C07_btree_indices_split : forall a s b nxt,
  ix_split (length a) nxt (idx_of (a ++ s :: b)) = idx_of (a ++ (s - 1 - nxt) :: nxt :: b).
Proof. exact split_spec. Qed.
Theorem C07_btree_indices_merge : forall a s1 s2 b,
  ix_merge (length a) (idx_of (a ++ s1 :: s2 :: b)) = idx_of (a ++ (s1 + 1 + s2) :: b).
Proof. exact merge_spec. Qed.
Theorem C07_btree_indices_removeAt : forall a s b, ix_remove_at (length a) (idx_of (a ++ s :: b)) = (s, idx_of (a ++ b)).
Proof. exact remove_at_spec. Qed.

(* sort.Sort in classifyVoterAndLearner: with distinct peer ids (PD's id allocator) the sorted voter / learner list is
   unique, so the model's insertion sort stands for any correct sort, for any number of peers *)
Theorem C07_sort_peers_unique : forall l l', NoDup (map p_id l) -> Permutation l l' ->
  StronglySorted (fun a b => p_id a <= p_id b) l' -> l' = sort_peers l.
Proof. exact sort_peers_unique. Qed.

(* non-vacuity: a history inside the domain with a split-like overlap, an in-place update, a swallowing put
   and a removal; the swallowing region is what remains *)
Example C07_nonvacuous :
  let p := [Peer 1 1 false; Peer 2 2 false; Peer 3 3 true] in
  let ops := [OSet (Region 1 [] [] p 1 [Peer 2 2 false] 10 1 1 1 1);
              OSet (Region 2 [] (K [99]) p 2 [] 4 2 1 1 2);
              OSet (Region 1 (K [99]) [] p 1 [] 6 2 1 1 3);
              OSet (Region 1 (K [99]) [] p 3 [] 7 2 1 1 4);
              OSet (Region 3 (K [100]) (K [102]) p 1 [] 5 1 1 1 5);
              OSet (Region 4 (K [98]) (K [101]) p 1 [] 9 3 1 1 6);
              OSet (Region 5 (K [120]) [] p 1 [] 2 1 1 1 7);
              ORemove 5] in
  Forall wf_op ops /\ map r_id (items (tree (state_of ops))) = [4] /\
  rt_len (leaders (state_of ops) 1) = 1 /\ total_size (followers (state_of ops) 2) = 9.
Proof. cbn zeta. split; [repeat constructor|]. vm_compute. auto. Qed.

Print Assumptions C07_tree_eq_map.
Print Assumptions C07_tree_sorted_disjoint.
Print Assumptions C07_total_size_exact_partial.
Print Assumptions C07_total_size_exact_refuted.
Print Assumptions C07_subtrees_exact_partial.
Print Assumptions C07_subtrees_exact_refuted.
Print Assumptions C07_get_region_is_cached.
Print Assumptions C07_search_is_linear_scan.
Print Assumptions C07_scan_range_is_linear_scan.
Print Assumptions C07_overlaps_is_linear_scan.
Print Assumptions C07_set_region_displaces.
Print Assumptions C07_search_prev_is_linear_scan.
Print Assumptions C07_adjacent_is_linear_scan.
Print Assumptions C07_random_pick_sound.
Print Assumptions C07_random_pick_many_sound.
Print Assumptions C07_random_pick_candidates_complete.
Print Assumptions C07_monitor_silent_on_model.
Print Assumptions C07_btree_empty_ok.
Print Assumptions C07_btree_replace_or_insert_refines.
Print Assumptions C07_btree_delete_refines.
Print Assumptions C07_btree_queries_refine.
Print Assumptions C07_btree_region_item_order.
Print Assumptions C07_btree_region_items_refine.
Print Assumptions C07_btree_refines_list_spec.
Print Assumptions C07_sort_peers_unique.
Print Assumptions C07_btree_indices_split.
Print Assumptions C07_btree_indices_merge.
