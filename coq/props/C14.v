(* C14 — Store lifecycle is a one-way state machine and stays durable.
   Statements only; proofs in proof/C14_StoreProof.v, structural obligations in proof/C14_Skel.v.
   Quantification: `s` is ANY model state and `o` ANY command (put-store new / same id / same address,
   direct or through the gRPC handler, label update, remove with or without physically-destroyed, up,
   bury (hook), check-stores, set-weight, tombstone cleanup, store heartbeat, region placement), each with
   an arbitrary storage fault (none / not applied / applied-but-error at any write of any store); the
   history statements quantify over every operation list `ops` from every boot state. *)
From Coq Require Import String.
From PDV Require Import lib.Base lib.C14_AList model.C14_Store proof.C14_StoreProof proof.C14_Skel.
Local Open Scope string_scope.
Local Open Scope Z_scope.

(* Up->Offline, Offline->Up unless physically destroyed, Offline->Tombstone, nothing else; the
   physically-destroyed flag is never cleared; a record appears only by a put of that id and
   disappears only as a tombstone through the cleanup.  (smove_ok is the boolean the monitor runs
   on implementation traces, here on the model's records before and after ANY command.) *)
Theorem C14_state_one_way :
  forall s o s' r, run_cmd s o = (s', r) -> forall id, smove_ok o id (sv s id) (sv s' id) = true.
Proof. exact state_one_way_pf. Qed.

Theorem C14_tombstone_absorbing :
  forall s o s' r id x, run_cmd s o = (s', r) -> sv s id = Some x -> s_state x = Tombstone ->
    (exists y, sv s' id = Some y /\ s_state y = Tombstone) \/ (sv s' id = None /\ is_clean o = true).
Proof. exact tombstone_absorbing_pf. Qed.

Theorem C14_tombstone_refused :
  forall s id x, crashed s = false -> sv s id = Some x -> s_state x = Tombstone ->
    (forall p f, p_id p = id -> run_cmd s (OPut true p f) = (s, RGrpcTombstone)) /\
    (forall f, run_cmd s (OHeartbeat id f) = (s, RGrpcTombstone)).
Proof. exact tombstone_refused_pf. Qed.

(* a store becomes tombstone only while no region has a peer on it; the excluded command is the
   direct call of the verification hook (buryStore has exactly one production caller, checkStores:
   proof/C14_Skel.v bury_callers_ok) *)
Theorem C14_bury_only_empty :
  forall s o s' r id x y, run_cmd s o = (s', r) -> is_bury_hook o = false ->
    sv s id = Some x -> sv s' id = Some y -> s_state x <> Tombstone -> s_state y = Tombstone ->
    tree_count s id = 0.
Proof. exact bury_only_empty_pf. Qed.

(* two served stores that are neither tombstone nor physically destroyed never share an address,
   after any history from any boot state *)
Theorem C14_live_addresses_unique :
  forall cv p ops, addr_inv (run_state run_op (boot cv p) ops).
Proof. exact live_addresses_unique_pf. Qed.

Print Assumptions C14_state_one_way.
Print Assumptions C14_tombstone_absorbing.
Print Assumptions C14_tombstone_refused.
Print Assumptions C14_bury_only_empty.
Print Assumptions C14_live_addresses_unique.
