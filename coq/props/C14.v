(* C14 — Store lifecycle is a one-way state machine and stays durable.
   Statements only; proofs in proof/C14_StoreProof.v, structural obligations in proof/C14_Skel.v.
   Quantification: `s` is ANY model state and `o` ANY command (put-store new / same id / same address,
   direct or through the gRPC handler, label update, remove with or without physically-destroyed, up,
   bury (hook), check-stores, set-weight, tombstone cleanup, store heartbeat, region placement), each with
   an arbitrary storage fault (none / not applied / applied-but-error at any write of any store); the
   history statements quantify over every operation list `ops` from every boot state. *)
From Coq Require Import String.
From PDV Require Import lib.Base lib.C14_AList model.C14_Store proof.C14_StoreProof proof.C14_Durable proof.C14_Skel.
Local Open Scope string_scope.
Local Open Scope Z_scope.

(* Up->Offline, Offline->Up unless physically destroyed, Offline->Tombstone, nothing else; the
   physically-destroyed flag is never cleared; a record appears only by a put of that id and
   disappears only as a tombstone through the cleanup.  (smove_ok is the boolean the monitor runs
   on implementation traces, here on the model's records before and after ANY command.) *)
Theorem C14_state_one_way :
  forall s o s' r, run_cmd s o = (s', r) -> forall id, smove_ok o id (sv s id) (sv s' id) = true.
Proof. exact state_one_way_pf. Qed.

Theorem C14_tombstone_absorbing :
  forall s o s' r id x, run_cmd s o = (s', r) -> sv s id = Some x -> s_state x = Tombstone ->
    (exists y, sv s' id = Some y /\ s_state y = Tombstone) \/ (sv s' id = None /\ is_clean o = true).
Proof. exact tombstone_absorbing_pf. Qed.

Theorem C14_tombstone_refused :
  forall s id x, sv s id = Some x -> s_state x = Tombstone ->
    (forall p f, p_id p = id -> run_cmd s (OPut true p f) = (s, RGrpcTombstone)) /\
    (forall f, run_cmd s (OHeartbeat id f) = (s, RGrpcTombstone)).
Proof. exact tombstone_refused_pf. Qed.

(* "... unless it was declared physically destroyed": the declaration is recorded and refuses UpStore *)
Theorem C14_destroyed_is_recorded_and_final :
  forall s id f s', run_cmd s (ORemove id true f) = (s', ROk) ->
    (exists y, sv s' id = Some y /\ s_state y = Offline /\ s_pd y = true) /\
    (forall f', run_cmd s' (OUp id f') = (s', RDestroyed)).
Proof. exact remove_destroyed_pf. Qed.

(* a store becomes tombstone only while no region has a peer on it, whichever command does it: since fix 2f015b8 buryStore
   itself looks at the region tree under the cluster lock, so the former exemption of a direct buryStore call is gone *)
Theorem C14_bury_only_empty :
  forall s o s' r id x y, run_cmd s o = (s', r) ->
    sv s id = Some x -> sv s' id = Some y -> s_state x <> Tombstone -> s_state y = Tombstone ->
    tree_count s id = 0.
Proof. exact bury_only_empty_pf. Qed.

(* two served stores that are neither tombstone nor physically destroyed never share an address,
   after any history from any boot state *)
Theorem C14_live_addresses_unique :
  forall cv p ops, addr_inv (run_state run_op (boot cv p) ops).
Proof. exact live_addresses_unique_pf. Qed.

(* ---------- durability ----------
   (proved on the code as repaired by the fix commits 7f1a0f1, 0d04e9a, eebcdab in /repo; on the tree before them both
   full statements were refuted, by the witnesses that are now the regression theorems below) *)
(* "After every successful change the stored record equals the served record."
   sproj = the lifecycle/identity fields of the served record (address, state, physically-destroyed,
   labels, version, weights); stored_proj = what LoadStores rebuilds from the meta record and the two
   weight keys; agree s id : sproj s id = stored_proj s id.  Stated for every command issued in any
   state reachable from any boot state by any history with any faults; a command counts as successful when it
   reports no error (check-stores reports nothing), and for the tombstone cleanup also when it stopped at an error
   (what it removed before is removed on both sides). *)
Definition C14_success_implies_stored_eq_served_full : Prop := success_full.
Theorem C14_success_implies_stored_eq_served : C14_success_implies_stored_eq_served_full.
Proof. exact success_full_pf. Qed.

(* the meta record alone is in step in ANY state (no reachability needed) *)
Theorem C14_changed_meta_is_stored :
  forall s o s' r, run_cmd s o = (s', r) -> (is_err r = false \/ is_clean o = true) ->
    forall id, sproj s' id <> sproj s id -> synced s' id.
Proof. exact changed_meta_is_stored_pf. Qed.

(* "A failed storage write leaves the served state unchanged.": any state, any command, any fault *)
Definition C14_failed_write_keeps_served_full : Prop := failed_full.
Theorem C14_failed_write_keeps_served : C14_failed_write_keeps_served_full.
Proof. exact failed_full_pf. Qed.

(* the cleanup that stops at a storage error: every record it touched is gone on both sides *)
Theorem C14_partial_cleanup_consistent :
  forall s order f s' r, run_cmd s (OClean order f) = (s', r) -> forall id, sproj s' id = sproj s id \/ synced s' id.
Proof. exact clean_error_pf. Qed.

(* regressions: the three old witnesses, as they behave now *)
Theorem C14_regression_weight_rollback :
  let s1 := reach (0, 0, 0) boot1 [OWeight 1 3 4 (Fault 1 1 FBefore)] in
  aget (st_lw s1) 1 = None /\
  exists s', run_cmd s1 (ORemove 1 false NoFault) = (s', ROk) /\ agree s' 1.
Proof. exact regression_weight_rollback. Qed.
Theorem C14_regression_cleanup_removes_weight_keys :
  exists s' r, run_cmd (reach (0, 0, 0) boot1 w_cleanup) (OPut false (Payload 1 "a1" Up false [] (Some (4, 0, 0))) NoFault) = (s', r)
    /\ r = ROk /\ agree s' 1.
Proof. exact regression_cleanup_removes_weight_keys. Qed.
Theorem C14_regression_failed_put_keeps_labels :
  run_cmd (boot (0, 0, 0) boot1) (OPut false (Payload 1 "a1" Up false [("zone", "z2"); ("host", "")] (Some (4, 0, 0))) (Fault 1 0 FBefore))
  = (boot (0, 0, 0) boot1, RStorage).
Proof. exact regression_failed_put_keeps_labels. Qed.

(* ---------- non-vacuity ---------- *)
(* a history with two stores, a fault of each kind, offline -> up -> offline -> tombstone, a refused
   gRPC re-registration, the cleanup and a re-registration; it satisfies hazard_free *)
Definition ex_ops : list op :=
  [OPut true (Payload 2 "a2" Up false [("zone", "z2")] (Some (4, 0, 5))) NoFault;
   OPut false (Payload 3 "a2" Up false [] (Some (4, 0, 0))) NoFault;            (* duplicate address *)
   ORegion 1 [1; 2];
   ORemove 2 false (Fault 2 0 FBefore); ORemove 2 false NoFault; OUp 2 (Fault 2 0 FAfter); OUp 2 NoFault;
   ORemove 2 true NoFault; OUp 2 NoFault;                                      (* physically destroyed: refused *)
   OCheck [] NoFault;                                                           (* still holds region 1 *)
   ORegion 1 [1]; OCheck [2] NoFault;
   OPut true (Payload 2 "a2" Up false [] (Some (4, 0, 5))) NoFault; OHeartbeat 2 NoFault;
   OClean [2] NoFault; OPut true (Payload 2 "a2" Up false [] (Some (4, 0, 5))) NoFault].
Example C14_nonvacuous :
  map o_res (run run_op (boot (0, 0, 0) boot1) ex_ops) =
    [ROk; RDupAddr; ROk; RStorage; ROk; RStorage; ROk; ROk; RDestroyed; RNone; ROk; RNone;
     RGrpcTombstone; RGrpcTombstone; ROk; ROk]
  /\ map (fun b => map (fun e => (fst e, v_state (snd e))) (o_served b)) (firstn 2 (skipn 11 (run run_op (boot (0, 0, 0) boot1) ex_ops)))
     = [[(1, Up); (2, Tombstone)]; [(1, Up); (2, Tombstone)]].
Proof. vm_compute. split; reflexivity. Qed.
(* ---------- the guards of PutStore that depend on the replication settings (OSetEnv changes them) ---------- *)
(* strictly-match-label: a registration or label update whose (merged) labels miss a location label or carry an unknown key is
   refused and nothing changes; the merged labels are those of merge_labels (UpdateStoreLabels / PutStore without force) *)
Theorem C14_strict_label_mismatch_refused :
  forall s p (force : bool) f v,
    p_id p <> 0 -> p_ver p = Some v -> compatible (cver s) v = true -> dup_addr s (p_id p) (p_addr p) = false ->
    labels_rejected (cenv s) (match sv s (p_id p) with
                              | None => p_labels p
                              | Some old => if force then p_labels p else merge_labels (s_labels old) (p_labels p)
                              end) = true ->
    put_impl s p force f = (s, RLabel).
Proof.
  intros s p force f v Hid Hv Hc Hd Hl. unfold put_impl.
  destruct (Z.eqb_spec (p_id p) 0); [contradiction|]. rewrite Hv, Hc, Hd. cbn [negb].
  destruct (sv s (p_id p)) as [old|]; rewrite Hl; reflexivity.
Qed.
(* the gRPC registration of a TiFlash store while placement rules are disabled is refused (after the tombstone guard) and nothing changes *)
Theorem C14_tiflash_refused_without_placement_rules :
  forall s p f, e_pr (cenv s) = false -> is_tiflash (p_labels p) = true ->
    (forall x, sv s (p_id p) = Some x -> s_state x <> Tombstone) ->
    run_cmd s (OPut true p f) = (s, RTiFlash).
Proof.
  intros s p f Hp Ht Hx. cbn [run_cmd]. cbv zeta. rewrite Hp, Ht. cbn [negb andb].
  destruct (sv s (p_id p)) as [x|] eqn:E; [|reflexivity].
  assert (T : is_tomb x = false) by (apply is_tomb_false, Hx; reflexivity). rewrite T. reflexivity.
Qed.

(* ---------- several failing writes in one operation (the restoring writes can fail too) ----------
   C14_success_implies_stored_eq_served and C14_failed_write_keeps_served above are stated for at most one failing write per
   operation (type `fault`): the best-effort writes that put the weight keys back succeed.  The layer do_weight_m /
   delete_store_m follows SetStoreWeight / SaveStoreWeight / DeleteStore write by write with ANY set of failing writes. *)
(* what holds for any set of failing writes: an operation that reports an error leaves what is served exactly as it was *)
Theorem C14_failed_write_keeps_served_any_faults :
  forall s o mf s' r, run_mop s o mf = (s', r) -> r <> ROk -> served s' = served s.
Proof. exact multi_failed_keeps_served_pf. Qed.
(* with at most one failing write the layer IS the single-fault model, so the theorems above carry over to it *)
Theorem C14_multi_fault_layer_refines_single_fault_model :
  (forall s id lw rw, do_weight_m s id lw rw [] = do_weight s id lw rw NoFault) /\
  (forall s id lw rw i k, do_weight_m s id lw rw [(i, k)] = do_weight s id lw rw (Fault id i k)) /\
  (forall s id i k, delete_store_m s id [(i, k)] = delete_store s id (Fault id i k)).
Proof. split; [exact weight_no_fault_pf|split; [exact weight_single_fault_pf|exact delete_single_fault_pf]]. Qed.
(* "stored = served after a failed operation" NEEDS the hypothesis that the restoring writes succeed: second failing write = the one
   that puts the leader weight back; error reported, served weight 1, stored leader weight 5 (nothing more can be done without storage) *)
Theorem C14_failed_op_stored_eq_served_needs_restoring_writes :
  exists s', do_weight_m multi_base 2 5 7 [(1%nat, FBefore); (2%nat, FBefore)] = (s', RStorage) /\
    served s' = served multi_base /\ aget (st_lw s') 2 = Some 5 /\ sv s' 2 = Some (SStore "a2" Up false [] (4, 0, 0) 1 1 0 false).
Proof. exact multi_fault_witness. Qed.

(* ---------- a new leader loads the same storage (LoadClusterInfo; Storage.LoadStores pages through every record) ---------- *)
(* what the new leader serves for an id is exactly the stored record with its weight keys, for EVERY id (no record is skipped) *)
Theorem C14_new_leader_serves_stored : forall s id, sproj (restart s) id = stored_proj s id.
Proof. exact restart_serves_stored_pf. Qed.
(* so a store whose served record agrees with storage - what every successful change establishes (C14_success_implies_stored_eq_served) -
   is served unchanged: a tombstone stays a tombstone, a live address stays taken *)
Theorem C14_new_leader_keeps_agreeing_store : forall s id, agree s id -> sproj (restart s) id = sproj s id.
Proof. exact restart_keeps_agreeing_store_pf. Qed.
Theorem C14_new_leader_keeps_storage :
  forall s, st_meta (restart s) = st_meta s /\ st_lw (restart s) = st_lw s /\ st_rw (restart s) = st_rw s.
Proof. exact restart_keeps_storage_pf. Qed.
Theorem C14_reload_idempotent : forall s id, sproj (restart (restart s)) id = sproj (restart s) id.
Proof. exact restart_idempotent_pf. Qed.

Print Assumptions C14_state_one_way.
Print Assumptions C14_tombstone_absorbing.
Print Assumptions C14_tombstone_refused.
Print Assumptions C14_destroyed_is_recorded_and_final.
Print Assumptions C14_bury_only_empty.
Print Assumptions C14_live_addresses_unique.
Print Assumptions C14_success_implies_stored_eq_served.
Print Assumptions C14_changed_meta_is_stored.
Print Assumptions C14_failed_write_keeps_served.
Print Assumptions C14_partial_cleanup_consistent.
Print Assumptions C14_regression_weight_rollback.
Print Assumptions C14_regression_cleanup_removes_weight_keys.
Print Assumptions C14_regression_failed_put_keeps_labels.
Print Assumptions C14_failed_write_keeps_served_any_faults.
Print Assumptions C14_multi_fault_layer_refines_single_fault_model.
Print Assumptions C14_failed_op_stored_eq_served_needs_restoring_writes.
Print Assumptions C14_strict_label_mismatch_refused.
Print Assumptions C14_tiflash_refused_without_placement_rules.
Print Assumptions C14_new_leader_serves_stored.
Print Assumptions C14_new_leader_keeps_agreeing_store.
Print Assumptions C14_new_leader_keeps_storage.
Print Assumptions C14_reload_idempotent.
