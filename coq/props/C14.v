(* C14 — Store lifecycle is a one-way state machine and stays durable.
   Statements only; proofs in proof/C14_StoreProof.v, structural obligations in proof/C14_Skel.v.
   Quantification: `s` is ANY model state and `o` ANY command (put-store new / same id / same address,
   direct or through the gRPC handler, label update, remove with or without physically-destroyed, up,
   bury (hook), check-stores, set-weight, tombstone cleanup, store heartbeat, region placement), each with
   an arbitrary storage fault (none / not applied / applied-but-error at any write of any store); the
   history statements quantify over every operation list `ops` from every boot state. *)
From Coq Require Import String.
From PDV Require Import lib.Base lib.C14_AList model.C14_Store proof.C14_StoreProof proof.C14_Durable proof.C14_Skel.
Local Open Scope string_scope.
Local Open Scope Z_scope.

(* Up->Offline, Offline->Up unless physically destroyed, Offline->Tombstone, nothing else; the
   physically-destroyed flag is never cleared; a record appears only by a put of that id and
   disappears only as a tombstone through the cleanup.  (smove_ok is the boolean the monitor runs
   on implementation traces, here on the model's records before and after ANY command.) *)
Theorem C14_state_one_way :
  forall s o s' r, run_cmd s o = (s', r) -> forall id, smove_ok o id (sv s id) (sv s' id) = true.
Proof. exact state_one_way_pf. Qed.

Theorem C14_tombstone_absorbing :
  forall s o s' r id x, run_cmd s o = (s', r) -> sv s id = Some x -> s_state x = Tombstone ->
    (exists y, sv s' id = Some y /\ s_state y = Tombstone) \/ (sv s' id = None /\ is_clean o = true).
Proof. exact tombstone_absorbing_pf. Qed.

Theorem C14_tombstone_refused :
  forall s id x, crashed s = false -> sv s id = Some x -> s_state x = Tombstone ->
    (forall p f, p_id p = id -> run_cmd s (OPut true p f) = (s, RGrpcTombstone)) /\
    (forall f, run_cmd s (OHeartbeat id f) = (s, RGrpcTombstone)).
Proof. exact tombstone_refused_pf. Qed.

(* "... unless it was declared physically destroyed": the declaration is recorded and refuses UpStore *)
Theorem C14_destroyed_is_recorded_and_final :
  forall s id f s', crashed s = false -> run_cmd s (ORemove id true f) = (s', ROk) ->
    (exists y, sv s' id = Some y /\ s_state y = Offline /\ s_pd y = true) /\
    (forall f', run_cmd s' (OUp id f') = (s', RDestroyed)).
Proof. exact remove_destroyed_pf. Qed.

(* a store becomes tombstone only while no region has a peer on it; the excluded command is the
   direct call of the verification hook (buryStore has exactly one production caller, checkStores:
   proof/C14_Skel.v bury_callers_ok) *)
Theorem C14_bury_only_empty :
  forall s o s' r id x y, run_cmd s o = (s', r) -> is_bury_hook o = false ->
    sv s id = Some x -> sv s' id = Some y -> s_state x <> Tombstone -> s_state y = Tombstone ->
    tree_count s id = 0.
Proof. exact bury_only_empty_pf. Qed.

(* two served stores that are neither tombstone nor physically destroyed never share an address,
   after any history from any boot state *)
Theorem C14_live_addresses_unique :
  forall cv p ops, addr_inv (run_state run_op (boot cv p) ops).
Proof. exact live_addresses_unique_pf. Qed.

(* ---------- durability ---------- *)
(* "After every successful change the stored record equals the served record."
   sproj = the lifecycle/identity fields of the served record (address, state, physically-destroyed,
   labels, version, weights); stored_proj = what LoadStores rebuilds from the meta record and the two
   weight keys; agree s id : sproj s id = stored_proj s id.  Stated for every command issued in any
   state reachable from any boot state; a command counts as successful when it reports no error
   (check-stores reports nothing), and for the tombstone cleanup also when it stopped at an error
   (what it removed before is removed on both sides). *)
Definition C14_success_implies_stored_eq_served_full : Prop := success_full.

(* FALSE of the code as it is: the weights live under two keys of their own. *)
Theorem C14_success_implies_stored_eq_served_refuted : ~ C14_success_implies_stored_eq_served_full.
Proof. exact success_refuted_pf. Qed.

(* second, independent witness: the tombstone cleanup leaves the weight keys behind *)
Theorem C14_success_refuted_by_cleanup :
  exists s' r, run_cmd (reach (0, 0, 0) boot1 w_cleanup) (OPut false (Payload 1 "a1" Up false [] (Some (4, 0, 0))) NoFault) = (s', r)
    /\ r = ROk /\ sproj s' 1 <> sproj (reach (0, 0, 0) boot1 w_cleanup) 1 /\ ~ agree s' 1.
Proof. exact success_refuted_cleanup_pf. Qed.

(* TRUE with the excluded class as a hypothesis: no faulted SetStoreWeight in the history, and no new
   registration of an id whose weight keys are still in storage (hazard_free); storage faults of
   both kinds at every other write remain allowed. *)
Theorem C14_success_implies_stored_eq_served_partial :
  forall cv p ops o s' r,
    hazard_free (boot cv p) (ops ++ [o]) -> run_cmd (reach cv p ops) o = (s', r) ->
    (is_err r = false \/ is_clean o = true) ->
    forall id, sproj s' id <> sproj (reach cv p ops) id -> agree s' id.
Proof. exact success_partial_pf. Qed.

(* the meta record alone (everything but the weights) is always in step, with no hypothesis at all:
   whatever a command changes in the served state is, for that store, exactly what is in storage *)
Theorem C14_changed_meta_is_stored :
  forall s o s' r, run_cmd s o = (s', r) -> (is_err r = false \/ is_clean o = true) ->
    forall id, sproj s' id <> sproj s id -> synced s' id.
Proof. exact changed_meta_is_stored_pf. Qed.

(* "A failed storage write leaves the served state unchanged." *)
Definition C14_failed_write_keeps_served_full : Prop := failed_full.

(* FALSE of the code as it is: StoreInfo.MergeLabels edits the served label structs in place before
   anything is saved. *)
Theorem C14_failed_write_keeps_served_refuted : ~ C14_failed_write_keeps_served_full.
Proof. exact failed_refuted_pf. Qed.

(* TRUE for every command in every state when the merge does not touch the served labels
   (op_merge_inert: forced label updates, new stores, labels that are already there) ... *)
Theorem C14_failed_write_keeps_served_partial :
  forall s o s' r, run_cmd s o = (s', r) -> is_err r = true -> is_clean o = false -> op_merge_inert s o ->
    forall id, sproj s' id = sproj s id.
Proof. exact failed_partial_pf. Qed.

(* ... and with no hypothesis: a failed command changes nothing but, at most, the labels of the one
   store a non-forced put / label update was aimed at, and then exactly by MergeLabels' in-place effect *)
Theorem C14_failed_write_changes_only_merged_labels :
  forall s o s' r, run_cmd s o = (s', r) -> is_err r = true -> is_clean o = false ->
    forall id, sproj s' id = sproj s id \/
               exists old ls, merging o id ls /\ sv s id = Some old /\
                              sv s' id = Some (with_cells old (snd (merge_labels (s_cells old) (s_cap old) ls))).
Proof. exact failed_only_labels_pf. Qed.

(* the cleanup that stops at a storage error: every record it touched is gone on both sides *)
Theorem C14_partial_cleanup_consistent :
  forall s order f s' r, run_cmd s (OClean order f) = (s', r) -> forall id, sproj s' id = sproj s id \/ synced s' id.
Proof. exact clean_error_pf. Qed.

(* ---------- non-vacuity ---------- *)
(* a history with two stores, a fault of each kind, offline -> up -> offline -> tombstone, a refused
   gRPC re-registration, the cleanup and a re-registration; it satisfies hazard_free *)
Definition ex_ops : list op :=
  [OPut true (Payload 2 "a2" Up false [("zone", "z2")] (Some (4, 0, 5))) NoFault;
   OPut false (Payload 3 "a2" Up false [] (Some (4, 0, 0))) NoFault;            (* duplicate address *)
   ORegion 1 [1; 2];
   ORemove 2 false (Fault 2 0 FBefore); ORemove 2 false NoFault; OUp 2 (Fault 2 0 FAfter); OUp 2 NoFault;
   ORemove 2 true NoFault; OUp 2 NoFault;                                      (* physically destroyed: refused *)
   OCheck [] NoFault;                                                           (* still holds region 1 *)
   ORegion 1 [1]; OCheck [2] NoFault;
   OPut true (Payload 2 "a2" Up false [] (Some (4, 0, 5))) NoFault; OHeartbeat 2 NoFault;
   OClean [2] NoFault; OPut true (Payload 2 "a2" Up false [] (Some (4, 0, 5))) NoFault].
Example C14_nonvacuous :
  map o_res (run run_op (boot (0, 0, 0) boot1) ex_ops) =
    [ROk; RDupAddr; ROk; RStorage; ROk; RStorage; ROk; ROk; RDestroyed; RNone; ROk; RNone;
     RGrpcTombstone; RGrpcTombstone; ROk; ROk]
  /\ map (fun b => map (fun e => (fst e, v_state (snd e))) (o_served b)) (firstn 2 (skipn 11 (run run_op (boot (0, 0, 0) boot1) ex_ops)))
     = [[(1, Up); (2, Tombstone)]; [(1, Up); (2, Tombstone)]].
Proof. vm_compute. split; reflexivity. Qed.
Example C14_nonvacuous_hazard_free : hazard_free (boot (0, 0, 0) boot1) ex_ops.
Proof. vm_compute. repeat split; intros; try discriminate; auto. Qed.

Print Assumptions C14_state_one_way.
Print Assumptions C14_tombstone_absorbing.
Print Assumptions C14_tombstone_refused.
Print Assumptions C14_destroyed_is_recorded_and_final.
Print Assumptions C14_bury_only_empty.
Print Assumptions C14_live_addresses_unique.
Print Assumptions C14_success_implies_stored_eq_served_refuted.
Print Assumptions C14_success_refuted_by_cleanup.
Print Assumptions C14_success_implies_stored_eq_served_partial.
Print Assumptions C14_changed_meta_is_stored.
Print Assumptions C14_failed_write_keeps_served_refuted.
Print Assumptions C14_failed_write_keeps_served_partial.
Print Assumptions C14_failed_write_changes_only_merged_labels.
Print Assumptions C14_partial_cleanup_consistent.
