(* C03 — Only the current leaseholder serves or persists leader-only state.
   Statements only; proofs in proof/C03_LeaderProof.v, structural obligations in proof/C03_Sites.v.
   Every label list is one history: campaigns (grant / txn with outcome), keep-alives, lease expiry,
   resets (resign), crashes, leader-key deletion, guarded writes and served requests of any number
   of members, in any order, with time passing anywhere.
   The leader key disappears only through lease expiry / revocation or PD's own (revision-guarded)
   DeleteLeaderKey; an operator deleting it by hand is outside the model (DESIGN.md, E1). *)
From Coq Require Import NArith.
From PDV Require Import lib.Base model.C03_Leader model.C03_Env proof.C03_LeaderProof proof.C03_Sites proof.C03_EnvRefine.
Local Open Scope N_scope.

(* at any instant at most one member serves as leader of a given leadership *)
Theorem C03_at_most_one_serving :
  forall ls m1 m2, let s := exec step init ls in
    is_leader s m1 = true -> is_leader s m2 = true -> m1 = m2.
Proof. intros ls m1 m2 s; apply at_most_one_leader, inv_exec. Qed.

(* whoever serves owns the stored leader record, attached to its own live etcd lease *)
Theorem C03_valid_lease_owns_key :
  forall ls m, let s := exec step init ls in
    is_leader s m = true ->
    exists id e et, lease (mems s m) = Granted id e /\ key s = Some (m, id) /\ leases s id = Some et.
Proof. intros ls m s; apply leader_owns_key, inv_exec. Qed.

(* a campaign succeeds only when no leader record exists, and never overwrites one *)
Theorem C03_campaign_only_without_record :
  forall s m o r s', step s (LCampaignTxn m o r) = Some s' ->
    (won (mems s' m) = true -> key s = None) /\
    (forall kv, key s = Some kv -> key s' = Some kv \/ key s' = None).
Proof. exact campaign_needs_no_record. Qed.

(* expired or resigned lease: the member is not leader, so it serves nothing (LServe is disabled) *)
Theorem C03_expired_or_resigned_serves_nothing :
  forall s m,
    (lease (mems s m) = NoLease \/ lease (mems s m) = Closed \/
     (exists id e, lease (mems s m) = Granted id e /\ e < now s)) ->
    is_leader s m = false /\ step s (LServe m) = None.
Proof.
  intros s m H. pose proof (no_valid_lease_not_leader s m H) as Hn. split; [exact Hn|].
  cbn. rewrite Hn. reflexivity.
Qed.

(* a guarded write of a member that does not own the stored record changes nothing in etcd,
   whatever the transport outcome: it cannot extend a window it no longer owns *)
Theorem C03_non_owner_write_rejected :
  forall s m k v o s', key_value s <> Some m -> step s (LWrite m k v o) = Some s' ->
    key s' = key s /\ data s' = data s /\ leases s' = leases s.
Proof. exact non_owner_write_rejected. Qed.

(* The history that broke this before the fix (a restarted member reads its own old record, the old
   lease expires, another member wins, the restarted member's delete arrives late): the delete is now
   refused, member 1 stays the only leader and the restarted member's campaign loses. *)
Definition stale_delete_trace : list label :=
  [LGrantStart 0 10; LGrantDone 0 true; LCampaignTxn 0 Ok true;
   LCrash 0; LObserve 0;
   LTick 11; LExpire 0;
   LGrantStart 1 10; LGrantDone 1 true; LCampaignTxn 1 Ok true;
   LDeleteKey 0 Ok true;
   LGrantStart 0 10; LGrantDone 0 true; LCampaignTxn 0 Ok true].

Example C03_stale_delete_harmless :
  let s := exec step init stale_delete_trace in
  (key_value s, is_leader s 0, is_leader s 1) = (Some 1%nat, false, true).
Proof. vm_compute. reflexivity. Qed.

(* non-vacuity: a history with hand-over, expiry and a rejected write, on which a leader serves *)
Example C03_nonvacuous :
  let ls := [LGrantStart 0 3; LGrantDone 0 true; LCampaignTxn 0 Ok true; LWrite 0 1 (Some 7%Z) Ok; LServe 0;
             LTick 1; LKeepStart 0; LTick 1; LKeepDone 0; LTick 2; LServe 0; LTick 5; LExpire 0;
             LGrantStart 1 3; LGrantDone 1 true; LCampaignTxn 1 Ok true; LWrite 0 1 (Some 9%Z) Ok; LServe 1; LServe 0] in
  let s := exec step init ls in
  (is_leader s 1, is_leader s 0, data s 1%nat, map snd (served s)) = (true, false, Some (0%nat, 7%Z), [1; 0; 0]%nat).
Proof. vm_compute. reflexivity. Qed.

(* Interface to C01/C02/C05: every history of the election model, projected to (who owns the record, which members
   evaluate IsLeader() to true), is a run of the leadership environment the timestamp model assumes
   (model/C03_Env.v): each environment label is enabled when taken - a record is only created when there is none,
   only the owner of the record starts believing again, and the record never disappears under a member that
   still believes.  props/C01.v (C01_accepts_leadership_environment) shows the timestamp model accepts these labels. *)
Theorem C03_refines_leadership_environment : forall ls,
  exists e, eexec env0 (env_trace ls) = Some e /\ env_eq e (env_of (exec step init ls)).
Proof. exact election_refines_environment. Qed.

Example C03_environment_trace_of_handover :
  env_trace [LGrantStart 0 3; LGrantDone 0 true; LCampaignTxn 0 Ok true; LTick 2; LKeepStart 0; LKeepDone 0; LTick 2;
             LTick 5; LKeepStart 0; LKeepDone 0; LExpire 0;
             LGrantStart 1 3; LGrantDone 1 true; LCampaignTxn 1 ErrApplied false; LTick 9; LExpire 1]
  = [EElect 0; EValidOff 0; EValidOn 0; EValidOff 0; EOwnerGone; EElect 1; EValidOff 1; EOwnerGone].
Proof. vm_compute. reflexivity. Qed.

Print Assumptions C03_at_most_one_serving.
Print Assumptions C03_valid_lease_owns_key.
Print Assumptions C03_campaign_only_without_record.
Print Assumptions C03_expired_or_resigned_serves_nothing.
Print Assumptions C03_non_owner_write_rejected.
Print Assumptions C03_refines_leadership_environment.
