(* C02 — Granted timestamps stay below the durably stored time window.
   Statements only; same model, hypotheses and proofs as C01 (model/C01_Tso.v, proof/C01_*.v).
   W = the value stored under <root>/timestamp (nanoseconds); a crash point is "the label list ends here":
   every theorem below holds for every prefix, and a take-over is any later LElect / LSync* of any member
   with any clock reading. *)
From Coq Require Import ZArith List.
From PDV Require Import lib.Base gen.Gen_C01 model.C01_Tso proof.C01_Ctl proof.C01_Win proof.C01_Rec proof.C01_Main proof.C01_Skel.
Import ListNotations.
Local Open Scope Z_scope.

Definition reach (iv gap : Z) (ls : list label) : state := exec step_r (init iv gap) ls.

(* every generated (a fortiori granted) timestamp has its physical part strictly below the stored window,
   at the moment it is generated and ever after *)
Theorem C02_physical_below_stored_window :
  forall iv gap ls r, guard < iv ->
    let s := reach iv gap ls in
    In r (recs s) -> exists w, W s = Some w /\ gP r * ns_per_ms < w.
Proof. intros iv gap ls r Hc s. apply window_bound. apply inv_exec. exact Hc. Qed.

(* the physical time in memory of every member is below what that member last saved, which is at most the
   stored window: the relation between memory and storage after every single step *)
Theorem C02_memory_below_window :
  forall iv gap ls m p, guard < iv ->
    let s := reach iv gap ls in
    phys (mems s m) = Some p ->
    exists sv w, last_saved (mems s m) = Some sv /\ W s = Some w /\ p + guard < sv /\ sv <= w.
Proof.
  intros iv gap ls m p Hc s Hp. pose proof (inv_exec iv gap ls Hc) as I.
  destruct (w_d2 _ (i_win _ I) _ _ Hp) as (sv & Hsv & Hlt).
  destruct (w_d1b _ (i_win _ I) _ _ Hsv) as (w & Hw & Hle). eauto 10.
Qed.

(* the stored window never decreases - for every storage outcome of every save *)
Theorem C02_window_monotone :
  forall iv gap ls l s', guard < iv ->
    let s := reach iv gap ls in
    step_r s l = Some s' -> opt_le (W s) (W s').
Proof. intros iv gap ls l s' Hc s. apply window_monotone. apply inv_exec. exact Hc. Qed.

(* take-over: whoever serves next, with whatever clock, grants above everything granted before
   (instance of C01's ordering theorem, restated for the crash / hand-over reading) *)
Theorem C02_takeover_above_history :
  forall iv gap ls r1 r2 te1 te2, guard < iv ->
    let s := reach iv gap ls in
    In r1 (recs s) -> In r2 (recs s) -> gst r1 = Granted te1 -> gst r2 = Granted te2 ->
    (gtb r1 < gtb r2)%nat -> gm r1 <> gm r2 -> below r1 r2.
Proof. intros iv gap ls r1 r2 te1 te2 Hc s H1 H2 G1 G2 Hlt _. eapply granted_ordered; eauto. apply inv_exec. exact Hc. Qed.

(* a window save that fails, loses the leader comparison or is not acknowledged does not advance memory:
   UpdateTimestamp returns without a pending setTSOPhysical *)
Theorem C02_failed_save_keeps_memory :
  forall s m o s', step0 s (LUpdSave m o) = Some s' -> (forall n, upd (mems s' m) <> UPendSet n) ->
    phys (mems s' m) = phys (mems s m) /\ logical (mems s' m) = logical (mems s m) /\
    last_saved (mems s' m) = last_saved (mems s m).
Proof. exact failed_upd_save_no_advance. Qed.

(* Every storage outcome is inside `reach` (step_r = step): in particular a window save that was applied although
   the client saw an error.  That case used to be excluded here and was refuted (a reset whose save was applied but
   reported as failed left lastSavedTime behind, and the next periodic save lowered the stored window); since the
   repair (saveUncertain / refreshLastSavedTime) the allocator reads its own window back before it decides about the
   next save.  The old witness, as a regression: the window stays at 3608 s and the update needs no save. *)
Definition unacked_reset_trace : list label :=
  [LElect 0; LSyncLoad 0; LSyncSave 0 5000000000 Ok; LSyncSet 0;
   LURBegin 0 (Z.shiftl 3605000 18); LURDecide 0; LURSave 0 ErrApplied;       (* reset to +1h: window 3608 s, client sees an error *)
   LUpdRead 0 7999500000; LUpdDecide 0].                                       (* next periodic update reads the window back first *)

Example C02_unacknowledged_save_regression :
  let s := exec step (init 3000000000 86400000) unacked_reset_trace in
  (W s, last_saved (mems s 0%nat), unsure (mems s 0%nat), upd (mems s 0%nat), step s (LUpdSave 0%nat Ok)) =
  (Some 3608000000000, Some 3608000000000, false, UPendSet 7999500000, None).
Proof. vm_compute. reflexivity. Qed.

(* a save that returned an error leaves the uncertainty mark, and nothing is decided about a later save before the
   window was read back: in the deciding states the mark is off and lastSavedTime is the stored window *)
Theorem C02_decision_uses_the_stored_window :
  forall iv gap ls m, guard < iv ->
    let s := reach iv gap ls in
    owner s = Some m ->
    (exists n, upd (mems s m) = UDecided n) \/ (exists p l, ur (mems s m) = RDeciding p l) ->
    unsure (mems s m) = false /\ exists w, W s = Some w /\ last_saved (mems s m) = Some w.
Proof.
  intros iv gap ls m Hc s Ho Hd. pose proof (inv_exec iv gap ls Hc) as I. pose proof (i_win _ I) as Wn.
  destruct Hd as [(n & Hu)|(p & l & Hr)].
  - pose proof (w_su _ Wn _ _ Hu) as Hun. split; [exact Hun|].
    assert (Hsy : synced (mems s m) = true) by (apply synced_of_upd; rewrite Hu; reflexivity).
    exact (w_d1 _ Wn _ Ho Hsy Hun).
  - pose proof (w_sr _ Wn _ _ _ Hr) as Hun. split; [exact Hun|].
    assert (Hsy : synced (mems s m) = true) by (apply synced_of_ur; rewrite Hr; reflexivity).
    exact (w_d1 _ Wn _ Ho Hsy Hun).
Qed.

Print Assumptions C02_physical_below_stored_window.
Print Assumptions C02_memory_below_window.
Print Assumptions C02_window_monotone.
Print Assumptions C02_takeover_above_history.
Print Assumptions C02_failed_save_keeps_memory.
Print Assumptions C02_decision_uses_the_stored_window.
