(* C02 — Granted timestamps stay below the durably stored time window.
   Statements only; same model, hypotheses and proofs as C01 (model/C01_Tso.v, proof/C01_*.v).
   W = the value stored under <root>/timestamp (nanoseconds); a crash point is "the label list ends here":
   every theorem below holds for every prefix, and a take-over is any later LElect / LSync* of any member
   with any clock reading. *)
From Coq Require Import ZArith List.
From PDV Require Import lib.Base gen.Gen_C01 model.C01_Tso proof.C01_Ctl proof.C01_Win proof.C01_Rec proof.C01_Main proof.C01_Skel.
Import ListNotations.
Local Open Scope Z_scope.

Definition reach (iv gap : Z) (ls : list label) : state := exec step_r (init iv gap) ls.

(* every generated (a fortiori granted) timestamp has its physical part strictly below the stored window,
   at the moment it is generated and ever after *)
Theorem C02_physical_below_stored_window :
  forall iv gap ls r, guard < iv ->
    let s := reach iv gap ls in
    In r (recs s) -> exists w, W s = Some w /\ gP r * ns_per_ms < w.
Proof. intros iv gap ls r Hc s. apply window_bound. apply inv_exec. exact Hc. Qed.

(* the physical time in memory of every member is below what that member last saved, which is at most the
   stored window: the relation between memory and storage after every single step *)
Theorem C02_memory_below_window :
  forall iv gap ls m p, guard < iv ->
    let s := reach iv gap ls in
    phys (mems s m) = Some p ->
    exists sv w, last_saved (mems s m) = Some sv /\ W s = Some w /\ p + guard < sv /\ sv <= w.
Proof.
  intros iv gap ls m p Hc s Hp. pose proof (inv_exec iv gap ls Hc) as I.
  destruct (w_d2 _ (i_win _ I) _ _ Hp) as (sv & Hsv & Hlt).
  destruct (w_d1b _ (i_win _ I) _ _ Hsv) as (w & Hw & Hle). eauto 10.
Qed.

(* the stored window never decreases *)
Theorem C02_window_monotone :
  forall iv gap ls l s', guard < iv ->
    let s := reach iv gap ls in
    step_r s l = Some s' -> opt_le (W s) (W s').
Proof. intros iv gap ls l s' Hc s. apply window_monotone. apply inv_exec. exact Hc. Qed.

(* take-over: whoever serves next, with whatever clock, grants above everything granted before
   (instance of C01's ordering theorem, restated for the crash / hand-over reading) *)
Theorem C02_takeover_above_history :
  forall iv gap ls r1 r2 te1 te2, guard < iv ->
    let s := reach iv gap ls in
    In r1 (recs s) -> In r2 (recs s) -> gst r1 = Granted te1 -> gst r2 = Granted te2 ->
    (gtb r1 < gtb r2)%nat -> gm r1 <> gm r2 -> below r1 r2.
Proof. intros iv gap ls r1 r2 te1 te2 Hc s H1 H2 G1 G2 Hlt _. eapply granted_ordered; eauto. apply inv_exec. exact Hc. Qed.

(* a window save that fails, loses the leader comparison or is not acknowledged does not advance memory:
   UpdateTimestamp returns without a pending setTSOPhysical *)
Theorem C02_failed_save_keeps_memory :
  forall s m o s', step0 s (LUpdSave m o) = Some s' -> (forall n, upd (mems s' m) <> UPendSet n) ->
    phys (mems s' m) = phys (mems s m) /\ logical (mems s' m) = logical (mems s m) /\
    last_saved (mems s' m) = last_saved (mems s m).
Proof. exact failed_upd_save_no_advance. Qed.

(* The full statement (window monotone under EVERY fault) is false of the faithful model: a reset whose
   save was applied but reported as failed leaves lastSavedTime behind, and the next periodic save lowers
   the stored window (memory is still below it: safety is not affected, monotonicity is). *)
Definition C02_window_monotone_full : Prop :=
  forall iv gap ls l s', guard < iv ->
    let s := exec step (init iv gap) ls in
    step s l = Some s' -> opt_le (W s) (W s').

Definition unacked_reset_trace : list label :=
  [LElect 0; LSyncLoad 0; LSyncSave 0 5000000000 Ok; LSyncSet 0;
   LURBegin 0 (Z.shiftl 3605000 18); LURDecide 0; LURSave 0 ErrApplied;       (* reset to +1h: window 3608 s, client sees an error *)
   LUpdRead 0 7999500000; LUpdDecide 0].                                       (* next periodic update: lastSaved (8 s) - next <= guard *)

Theorem C02_window_monotone_full_refuted : ~ C02_window_monotone_full.
Proof.
  intros H. specialize (H 3000000000 86400000 unacked_reset_trace (LUpdSave 0%nat Ok)).
  cbv zeta in H.
  assert (E : exists s', step (exec step (init 3000000000 86400000) unacked_reset_trace) (LUpdSave 0%nat Ok) = Some s' /\
                         W (exec step (init 3000000000 86400000) unacked_reset_trace) = Some 3608000000000 /\ W s' = Some 10999500000).
  { eexists. vm_compute. repeat split. }
  destruct E as (s' & Hs & Hw & Hw'). specialize (H s' ltac:(reflexivity) Hs). rewrite Hw, Hw' in H. cbn in H. lia.
Qed.

Print Assumptions C02_physical_below_stored_window.
Print Assumptions C02_memory_below_window.
Print Assumptions C02_window_monotone.
Print Assumptions C02_takeover_above_history.
Print Assumptions C02_failed_save_keeps_memory.
Print Assumptions C02_window_monotone_full_refuted.
