(* C16 — Followers converge to the leader's region view through region sync.
   Statements only; proofs in proof/C16_BufferProof.v, proof/C16_SyncProof.v, proof/C16_Skel.v.

   Quantification.  Buffer: every capacity `cap` (newHistoryBuffer turns it into size = max(cap+1, 2)),
   every operation list over Record (with the outcome of the storage write it may trigger), RecordsFrom,
   ResetWithIndex, GetNextIndex, firstIndex and Restart (a new buffer over the same storage, with the
   outcome of its Load) — wrap-around, overflow and exact fill are histories of that shape.
   Sync: every leader region set (any size: 0, 1, one batch, several batches, not a multiple of the
   batch size), with or without leaders.
   Assumptions (checks/C16.json): the next index stays below 2^64; nobody else writes "historyIndex";
   the gRPC stream is a reliable in-order channel; the follower's SaveRegion succeeds. *)
From Coq Require Import String.
From PDV Require Import lib.Base gen.Gen_C16 model.C16_Syncer proof.C16_BufferProof proof.C16_SyncProof proof.C16_Skel.
Local Open Scope Z_scope.
Local Open Scope list_scope.

(* ------------------------------------------------------------------------------------------ *)
(* 1. the change log                                                                          *)
(* ------------------------------------------------------------------------------------------ *)
(* The ring buffer is observationally the log specification `arun_op`: base index + everything recorded
   since the last reset/restart; every operation returns the same answer. *)
Theorem C16_ring_refines_log :
  forall (A : Type) cap (ops : list (bop A)),
    run brun_op (binit cap) ops = run arun_op (ainit cap) ops.
Proof. exact (@ring_refines_log). Qed.

(* Inside the window [first, next) — the last min(capacity, |log|) indexes — RecordsFrom returns exactly the
   records from that index to the newest, in order; outside it returns nothing. *)
Theorem C16_records_from_exact :
  forall (A : Type) cap (ops : list (bop A)) i,
    let s := run_state brun_op (binit cap) ops in
    let a := run_state arun_op (ainit cap) ops in
    next_index (buf s) = a_next a /\ first_index (buf s) = a_first a /\
    (a_first a <= i < a_next a ->
       records_from (buf s) i = Some (map Some (skipn (Z.to_nat (i - a_base a)) (a_log a)))) /\
    (~ (a_first a <= i < a_next a) -> records_from (buf s) i = Some []).
Proof. exact (@records_from_exact_pf). Qed.

Theorem C16_window_is_last_cap_records :
  forall (A : Type) (a : aspec A), 0 <= a_cap a ->
    a_next a - a_first a = Z.min (a_cap a) (Z.of_nat (length (a_log a))).
Proof. exact (@a_window_size). Qed.

(* The next index survives a restart without going back by more than the flush interval of 100 records: for every
   fault-free history, ResetWithIndex included (it persists the index it sets since 3a92c2a; before that fix the
   statement was refuted by [OReset 1000000] — kept below as an Example that now behaves). *)
Theorem C16_restart_index_lag :
  forall (A : Type) cap (ops : list (bop A)) cap',
    faultfree ops = true ->
    let s := run_state brun_op (binit cap) ops in
    next_index (buf (restart s cap' true)) >= next_index (buf s) - 100.
Proof. exact (@restart_index_lag_100). Qed.

(* and with failing storage writes: exactly 100 more per flush whose write failed since the last successful persist
   (resets persist and restarts load; the write a Record may trigger is arbitrary) *)
Theorem C16_restart_index_lag_with_failed_flushes :
  forall (A : Type) cap (ops : list (bop A)) cap',
    ctl_ok ops = true ->
    let s := run_state brun_op (binit cap) ops in
    let g := failed_flushes (ainit cap) 0 ops in
    0 <= g /\ next_index (buf (restart s cap' true)) > next_index (buf s) - 100 * (1 + g).
Proof. exact (@restart_index_lag_faulty_pf). Qed.

Example C16_reset_then_restart_keeps_index :
  run brun_op (binit 10) [ORecord 1 true; OReset 1000000 true; ORecord 2 true; ONext; ORestart 10 true]
  = [BUnit; BUnit; BUnit; BIdx 1000001; BIdx 1000000].
Proof. vm_compute. reflexivity. Qed.

(* ------------------------------------------------------------------------------------------ *)
(* 2. the sync stream                                                                         *)
(* ------------------------------------------------------------------------------------------ *)
(* Full synchronisation: a follower with an empty cache that applies the messages the leader sends for its region
   set holds, for every region sent, the leader's range, peers, leader and flow statistics — however many regions
   and batches.  (Refuted before 4d83d3b for 101 regions: `leaders` was not truncated; the former witness is the
   Example C16_sync_nonvacuous below.) *)
Theorem C16_follower_equals_leader_for_sent :
  forall cap kv regions,
    region_set regions -> leaders_valid regions ->
    let f := fold_left apply_msg (full_sync_impl regions) (finit cap kv) in
    forall r, In r regions -> find_id (f_cache f) (m_id (meta r)) = Some r.
Proof. exact follower_equals_leader_for_sent_pf. Qed.

(* the same for the loop with any batch size and any truncation list that contains all three accumulators *)
Theorem C16_follower_equals_leader_if_all_truncated :
  forall trunc batch cap kv regions,
    all_truncated trunc -> region_set regions -> leaders_valid regions ->
    let f := fold_left apply_msg (full_sync trunc batch regions) (finit cap kv) in
    forall r, In r regions -> find_id (f_cache f) (m_id (meta r)) = Some r.
Proof. exact follower_equals_leader_if_all_truncated_pf. Qed.

(* the code as it is resets all of them (regenerated from syncHistoryRegion on every run) *)
Theorem C16_code_truncates : Gen_C16.full_sync_truncated = ["Regions"; "RegionStats"; "RegionLeaders"]%string.
Proof. exact full_sync_truncated_ok. Qed.

(* Incremental synchronisation: the follower applies exactly the leader's change sequence, so a follower
   whose cache is the result of the first part of the sequence ends with the result of the whole. *)
Theorem C16_incremental_sync_converges :
  forall c0 pre suf start f, leaders_valid suf ->
    f_cache f = fold_left check_and_put pre c0 ->
    f_cache (apply_msg f (incr_msg start suf)) = fold_left check_and_put (pre ++ suf) c0.
Proof. exact incremental_sync_converges_pf. Qed.

(* which answer the leader gives: inside the window the one incremental message with the suffix of the
   log; index 0 below the window the full synchronisation *)
Theorem C16_sync_history_incremental :
  forall cap ops regions start,
    let s := run_state brun_op (binit cap) ops in
    let a := run_state (@arun_op rinfo) (ainit cap) ops in
    a_first a <= start < a_next a ->
    sync_history (buf s) regions start =
    (KIncr, [incr_msg start (skipn (Z.to_nat (start - a_base a)) (a_log a))]).
Proof. exact sync_history_incremental_pf. Qed.

Theorem C16_sync_history_full :
  forall cap ops regions,
    let s := run_state brun_op (binit cap) ops in
    let a := run_state (@arun_op rinfo) (ainit cap) ops in
    0 < a_first a ->
    sync_history (buf s) regions 0 = (KFull, full_sync_impl regions).
Proof. exact sync_history_full_pf. Qed.

(* after a message the follower's next index is the message's start index + the regions it carried *)
Theorem C16_follower_index_after_msg :
  forall f m, next_index (buf (f_hist (apply_msg f m))) = g_start m + Z.of_nat (length (g_regions m)).
Proof. exact follower_index_after_msg. Qed.

(* the broadcast path: RunServer's batches (first + up to 100 pending notifications each) decode to the
   notified regions, so the follower replays exactly the notified change sequence *)
Theorem C16_broadcast_replays :
  forall next pending f, leaders_valid pending ->
    f_cache (fold_left apply_msg (run_server_batches (S (length pending)) next pending) f) =
    fold_left check_and_put pending (f_cache f).
Proof. exact broadcast_replays_pf. Qed.

(* full synchronisation into a follower that already holds older versions of the leader's regions (same id, same
   range, epochs not larger — what LoadRegionsOnce puts there from its own storage): the same conclusion *)
Theorem C16_full_sync_over_stale_cache :
  forall cap kv regions old,
    region_set regions -> leaders_valid regions -> older_versions old regions -> region_set old ->
    let f0 := finit cap kv in
    let f := fold_left apply_msg (full_sync_impl regions) (FS old (f_saved f0) (f_hist f0)) in
    forall r, In r regions -> find_id (f_cache f) (m_id (meta r)) = Some r.
Proof. exact full_sync_impl_over_stale_cache_pf. Qed.

(* ------------------------------------------------------------------------------------------ *)
(* 3. stream faults                                                                           *)
(* ------------------------------------------------------------------------------------------ *)
(* Any number of sessions, each cut after any number of delivered messages (the stream broke, the leader restarted,
   the follower reconnected with whatever index it had reached), any of the follower's own SaveRegion calls failing:
   the follower's cache is the replay, in order, of exactly the regions that were delivered. *)
Theorem C16_sessions_replay :
  forall ss f, f_cache (fold_left run_session ss f) = fold_left check_and_put (concat (map delivered ss)) (f_cache f).
Proof. exact sessions_replay_pf. Qed.

(* A full synchronisation cut after any number of batches: the follower holds exactly a prefix of the leader's region
   list, every region of it with the leader's range, peers, leader and statistics. *)
Theorem C16_cut_full_sync :
  forall cap kv regions k fails,
    region_set regions -> leaders_valid regions ->
    let f := run_session (finit cap kv) (Sess (full_sync_impl regions) k fails) in
    exists j, f_cache f = rev (firstn j regions) /\
              forall r, In r (firstn j regions) -> find_id (f_cache f) (m_id (meta r)) = Some r.
Proof. exact cut_full_sync_pf. Qed.

(* Convergence after reconnection: wherever the first attempt was cut, a later full synchronisation that completes
   leaves the follower with every region of the leader. *)
Theorem C16_reconnect_full_sync_converges :
  forall cap kv regions k fails fails2,
    region_set regions -> leaders_valid regions ->
    let f1 := run_session (finit cap kv) (Sess (full_sync_impl regions) k fails) in
    let ms := full_sync_impl regions in
    let f2 := run_session f1 (Sess ms (length ms) fails2) in
    forall r, In r regions -> find_id (f_cache f2) (m_id (meta r)) = Some r.
Proof. exact reconnect_full_sync_converges_pf. Qed.

(* the follower's index after a message with failing saves: start index + the saves that succeeded (so the next
   message finds a mismatch and resets it) *)
Theorem C16_follower_index_with_failed_saves :
  forall f m oks,
    next_index (buf (f_hist (apply_msg_ok f m oks))) =
    g_start m + Z.of_nat (length (filter snd (with_oks (decode m) oks))).
Proof. exact follower_index_after_msg_ok_pf. Qed.

(* non-vacuity: a capacity-3 buffer that wraps twice, is read at both window edges, reset and restarted *)
Example C16_buffer_nonvacuous :
  run brun_op (binit 3)
      [ORecord 10 true; ORecord 11 true; ORecord 12 true; ORecord 13 true; ORecord 14 true;
       OFirst; ONext; OFrom 1; OFrom 2; OFrom 4; OFrom 5; OReset 7 true; ORecord 15 true; OFrom 7; ORestart 3 true]
  = [BUnit; BUnit; BUnit; BUnit; BUnit; BIdx 2; BIdx 5; BRecs []; BRecs [Some 12; Some 13; Some 14];
     BRecs [Some 14]; BRecs []; BUnit; BUnit; BRecs [Some 15]; BIdx 7].
Proof. vm_compute. reflexivity. Qed.

(* non-vacuity: the hypotheses of the sync theorems are satisfiable by a set of more than one batch *)
Example C16_sync_nonvacuous :
  region_set witness_regions /\ leaders_valid witness_regions /\ length witness_regions = 101%nat /\
  length (full_sync_impl witness_regions) = 2%nat /\
  (* the former S7 witness: region 101 of the second batch arrives with its own leader *)
  (let f := fold_left apply_msg (full_sync_impl witness_regions) (finit 10000 None) in
   option_map leader (find_id (f_cache f) 101) = Some (Some (Peer 1101 1 false))).
Proof.
  split; [exact witness_region_set|]. split; [exact witness_leaders_valid|]. split; [reflexivity|].
  split; [vm_compute; reflexivity|exact witness_aligned].
Qed.

Print Assumptions C16_ring_refines_log.
Print Assumptions C16_records_from_exact.
Print Assumptions C16_window_is_last_cap_records.
Print Assumptions C16_restart_index_lag.
Print Assumptions C16_restart_index_lag_with_failed_flushes.
Print Assumptions C16_sessions_replay.
Print Assumptions C16_cut_full_sync.
Print Assumptions C16_reconnect_full_sync_converges.
Print Assumptions C16_follower_index_with_failed_saves.
Print Assumptions C16_follower_equals_leader_for_sent.
Print Assumptions C16_follower_equals_leader_if_all_truncated.
Print Assumptions C16_code_truncates.
Print Assumptions C16_incremental_sync_converges.
Print Assumptions C16_sync_history_incremental.
Print Assumptions C16_sync_history_full.
Print Assumptions C16_follower_index_after_msg.
Print Assumptions C16_broadcast_replays.
Print Assumptions C16_full_sync_over_stale_cache.
