(* C08 — Generated operator steps are safe and reach the requested placement.
   Statements only; proofs in proof/C08_PlanProof.v, proof/C08_BuilderProof.v, proof/C08_Skel.v.

   Shape of the result (DESIGN.md 5/C08):
   * plan_ok is a verified checker: C08_plan_ok_sound holds for ALL regions, goals and step lists.
     Every plan the real operator.Builder produces in a run of bin/check is pushed through it inside Coq
     (monitor of model/C08_Builder.v), which decides the property for that plan.
   * The builder model (checked step for step against the real builder on every case) is shown to
     produce only accepted plans: IN GENERAL for both paths (C08_builder_plan_ok: any number of stores,
     any call sequence, any cluster), and additionally by exhaustive evaluation on the domain of <= 3
     stores (bounded: the bound is in the statement).  The two classes of inputs on which
     the builder used to violate the property (S16, demote before add) were repaired in /repo; the
     former refutation witnesses are kept as regression lemmas (the old plans are rejected, the new
     ones accepted). *)
From Coq Require Import String.
From PDV Require Import lib.Base gen.Gen_C08 model.C08_Steps model.C08_Builder
     proof.C08_ListFacts proof.C08_PlanProof proof.C08_BuilderProof proof.C08_JointMain proof.C08_NjMain proof.C08_LeaderStores proof.C08_AllocIds proof.C08_Skel proof.C08_StepSpec.
Local Open Scope Z_scope.

(* ---- the checker is sound, for every region state, goal and plan ---- *)
Theorem C08_plan_ok_sound :
  forall (g : goal) (r : region) (ss : list step),
    plan_ok g r ss = true ->
    exists trs rf,
      exec_plan r ss = Some (trs, rf) /\          (* every step: passed over because already finished, or executed *)
      Forall (transition_ok g) trs /\             (* each executed step: precondition holds at its turn, the store accepts
                                                     the command, the step is finished afterwards; the leader of that moment
                                                     is neither removed nor demoted; leadership only goes to a voter /
                                                     incoming voter present at that moment; one peer per store; voters of
                                                     the old and of the new configuration >= min(origin, target) *)
      final_state_ok g rf.                        (* exactly the requested peers and roles, requested leader, leader is a voter (incoming voter if the
                                                     requested placement itself is a joint state) *)
Proof. exact plan_ok_sound_pf. Qed.

(* the executed transitions are exactly the steps of the plan that were not already finished, in order *)
Theorem C08_exec_plan_covers_steps :
  forall ss r trs rf, exec_plan r ss = Some (trs, rf) ->
    exists flags : list bool, length flags = length ss /\
      map (fun t => snd (fst t)) trs = map snd (filter (fun x => fst x) (combine flags ss)).
Proof. exact exec_plan_steps. Qed.

(* ---- step.go itself: CheckSafety and IsFinish as transcribed imply what the property asks of them, for every step kind
        (the driver's step monitor holds the IMPLEMENTATION's answers against the same two predicates) ---- *)
(* a step passes CheckSafety only if: leadership goes to a present non-learner; a peer is added only to a free store (or is
   already there); promote/demote/joint entries exist with their ids; the leader is never removed, demoted, or demoted by
   leaving a joint state; a joint step is either wholly pending on a region outside any joint state or wholly done with the
   region's joint peers being exactly its entries *)
Theorem C08_check_safety_sound :
  forall r s, nodup_stores (peers r) = true -> step_ids_nonzero s = true -> check_safety r s = None -> spec_safe r s = true.
Proof. intros r s H. apply check_safety_sound. apply nodup_stores_ND. exact H. Qed.

(* a step counts as finished only if its effect is present in the region *)
Theorem C08_is_finish_sound :
  forall r s, nodup_stores (peers r) = true -> step_ids_nonzero s = true -> is_finish r s = true -> spec_done r s = true.
Proof. intros r s H. apply is_finish_sound. apply nodup_stores_ND. exact H. Qed.

(* ---- pending peers (a peer that has not caught up with its snapshot; reported by heartbeats): only IsFinish of the four
        add steps reads them (is_finish_p; checked against the real IsFinish on regions with pending peers by the driver).
        They can only DELAY a step: finishing with pending peers implies finishing without; a step held back by a pending
        peer is an add step whose peer is already there, its precondition holds, nothing is sent again and ConfVerChanged
        already counts it - the operator waits, no clause of C08 other than "finished right after the store applied the
        command" is affected, and that one holds as soon as the peer leaves the pending list. ---- *)
Theorem C08_pending_peers_only_delay :
  (forall r s, is_finish_p [] r s = is_finish r s)
  /\ (forall pend r s, is_finish_p pend r s = true -> is_finish r s = true)
  /\ (forall pend r s, nodup_stores (peers r) = true -> is_finish r s = true -> is_finish_p pend r s = false ->
        (exists st id, (s = AddPeer st id \/ s = AddLearner st id \/ s = AddLightPeer st id \/ s = AddLightLearner st id) /\ In id pend)
        /\ check_safety r s = None /\ cmd_of_step r s = None /\ conf_ver_changed r s = 1).
Proof.
  split; [exact is_finish_p_nil|]. split; [exact is_finish_p_sound|].
  intros pend r s H. apply pending_only_waits. apply nodup_stores_ND. exact H.
Qed.

(* ---- builder, exhaustive for up to 3 stores: all origin role vectors and leaders, all target role vectors
        and requested leaders (or none), all leader-admissibility vectors of the stores, joint consensus
        {on, supported but disabled, unsupported}, force-leader on/off ---- *)
Theorem C08_builder_plan_ok_bounded :
  forall n, (1 <= n <= 3)%nat ->
  forall ov ol tv tl lok m force,
    In ov (vectors role_opts n) -> In ol (voters_of (origin_of ov)) ->
    In tv (vectors role_opts n) -> In tl (0 :: voters_of (target_of tv)) ->
    In lok (vectors [true; false] n) -> In m modes ->
  forall b ss kl kr,
    prepared (mk_input n ov ol tv tl lok m force) = Some b -> build (mk_input n ov ol tv tl lok m force) = Built ss kl kr ->
    plan_ok (goal_of b) (i_region (mk_input n ov ol tv tl lok m force)) ss = true.
Proof. exact builder_plan_ok_bounded_pf. Qed.

(* ---- the builder's own rule for leader targets (allowLeader's store checks), exhaustive for the same inputs: outside the
        forced-leader variant every TransferLeader step of a plan goes to a store that accepts leaders - also when that
        store led the region before the plan moved the leader away (repaired: planReplaceLeaders judged the second
        transfer with the leader of before the first one) ---- *)
Theorem C08_builder_leader_only_to_accepting_stores_bounded :
  forall n, (1 <= n <= 3)%nat ->
  forall ov ol tv tl lok m force,
    In ov (vectors role_opts n) -> In ol (voters_of (origin_of ov)) ->
    In tv (vectors role_opts n) -> In tl (0 :: voters_of (target_of tv)) ->
    In lok (vectors [true; false] n) -> In m modes ->
  forall b ss kl kr,
    prepared (mk_input n ov ol tv tl lok m force) = Some b -> build (mk_input n ov ol tv tl lok m force) = Built ss kl kr ->
    leader_stores_ok (b_cluster b) ol (b_tleader b) (b_force b) ss = true.
Proof. exact builder_leader_stores_bounded_pf. Qed.

(* the same IN GENERAL: any region (any number of peers and stores), any sequence of builder calls, any cluster, both build
   paths.  Joint path: the one leader move of the script goes to the requested or the picked target leader, both of which
   passed allowLeader while the origin leader led.  Non-joint path: invariant of the loop - the leader moves of a round are
   the ones its plan kind allows (planReplaceLeaders' second move judged after the first, allowLeaderAfter) - and the final
   move as on the joint path *)
Theorem C08_builder_leader_only_to_accepting_stores :
  forall i b ss kl kr,
    nodup_stores (peers (i_region i)) = true ->
    is_in_joint (i_region i) = false ->
    (exists lp, get_store_peer (i_region i) (leader (i_region i)) = Some lp /\ prole lp = Voter) ->
    prepared i = Some b -> build i = Built ss kl kr ->
    leader_stores_ok (b_cluster b) (leader (i_region i)) (b_tleader b) (b_force b) ss = true.
Proof. exact builder_leader_stores_pf. Qed.

Theorem C08_leader_bounce_rejected :
  leader_stores_ok (Cluster [Store 1 true false []; Store 2 true true []; Store 3 true true []] false false 0) 1 0 false
    [TransferLeader 1 2; AddLearner 3 203; PromoteLearner 3 203; TransferLeader 2 1; RemovePeer 2 102; TransferLeader 1 3] = false.
Proof. exact leader_bounce_rejected. Qed.

(* ---- the two inputs on which the builder violated the property before it was repaired ---- *)
(* S16: without joint-consensus support a voter->learner change is split into remove+add on the same store; the add
   now waits until the store is free and gets a new peer id *)
Theorem C08_s16_repaired :
  build s16_input = Built [RemovePeer 2 12; AddLearner 2 202; RemovePeer 3 13] false true
  /\ exists b, prepared s16_input = Some b /\
       plan_ok (goal_of b) (i_region s16_input) [RemovePeer 2 12; AddLearner 2 202; RemovePeer 3 13] = true.
Proof. split; [exact s16_plan|exact s16_ok]. Qed.

(* joint consensus supported but disabled: the replacing voter is now added before the follower is demoted *)
Theorem C08_demote_after_add_repaired :
  build dip_input = Built [AddLearner 1 201; PromoteLearner 1 201; DemoteFollower 3 103] false true
  /\ exists b, prepared dip_input = Some b /\
       plan_ok (goal_of b) (i_region dip_input) [AddLearner 1 201; PromoteLearner 1 201; DemoteFollower 3 103] = true.
Proof. split; [exact dip_plan|exact dip_ok]. Qed.

(* the plans built before the repairs are rejected by the checker (so a regression is a violation, not a silent change) *)
Theorem C08_unrepaired_plans_rejected :
  (exists b, prepared s16_input = Some b /\
     plan_check (goal_of b) (i_region s16_input) [AddLearner 2 12; RemovePeer 3 13; RemovePeer 2 12] = Some "check-safety-fails:AddLearner"%string)
  /\ (exists b, prepared dip_input = Some b /\
     plan_check (goal_of b) (i_region dip_input) [DemoteFollower 3 103; AddLearner 1 201; PromoteLearner 1 201] = Some "voters-below-min:DemoteFollower"%string).
Proof. exact old_plans_rejected. Qed.

(* ---- CreateLeaveJointStateOperator, every reachable joint state of up to 3 stores ---- *)
Theorem C08_leave_joint_ok_bounded :
  forall n, (1 <= n <= 3)%nat ->
  forall ov ol lok,
    In ov (vectors joint_role_opts n) -> reachable_joint (origin_of ov) = true ->
    In ol (voters_of (origin_of ov)) -> In lok (vectors [true; false] n) ->
    let c := Cluster (stores_of 1 lok) true true 0 in
    let r := Region (origin_of ov) ol 5 0 in
    exists ss kl kr, leave_joint_op c r = Built ss kl kr /\ plan_ok (leave_goal r) r ss = true.
Proof. exact leave_joint_ok_bounded_pf. Qed.

(* ---- the joint path, in general: ANY region (any number of peers, any peer order and ids), any sequence of builder
        calls, any cluster (store states, labels), any allocator answers.  If the builder model takes the joint path and
        produces a plan, the checker accepts it — and by C08_plan_ok_sound its execution satisfies every clause.
        Hypotheses: the origin has one peer per store, is not in a joint state, and its leader is a voter. ---- *)
Theorem C08_builder_joint_plan_ok :
  forall i b ss kl kr,
    nodup_stores (peers (i_region i)) = true ->
    is_in_joint (i_region i) = false ->
    (exists lp, get_store_peer (i_region i) (leader (i_region i)) = Some lp /\ prole lp = Voter) ->
    prepared i = Some b -> b_use_joint b = true -> build i = Built ss kl kr ->
    plan_ok (goal_of b) (i_region i) ss = true.
Proof. exact builder_joint_plan_ok_general_pf. Qed.

(* ---- the non-joint path, in general: any region, any sequence of builder calls, any cluster, any allocator answers.
        Extra hypothesis: the peer ids of the origin and of the peers the plan adds are pairwise distinct (what PD's id
        allocator guarantees; DemoteFollower.CheckSafety recognises the leader by its peer id).
        Proof: the loop of buildStepsWithoutJointConsensus keeps a simulation between the builder's state and the
        region reached by the steps emitted so far, and a per-store invariant tying toAdd / toRemove / toPromote /
        toDemote to the target; peerPlan's result is one of the candidates that reached comparePlan, whatever the
        preference functions say; a lone demotion or voter removal happens only when no voter is waiting to be added
        (else planReplace would not have been empty), so the voter count never drops below min(origin, target). ---- *)
Theorem C08_builder_nonjoint_plan_ok :
  forall i b ss kl kr,
    nodup_stores (peers (i_region i)) = true ->
    is_in_joint (i_region i) = false ->
    (exists lp, get_store_peer (i_region i) (leader (i_region i)) = Some lp /\ prole lp = Voter) ->
    prepared i = Some b -> b_use_joint b = false ->
    NoDup (map pid (peers (i_region i)) ++ map pid (b_add b)) ->
    build i = Built ss kl kr ->
    plan_ok (goal_of b) (i_region i) ss = true.
Proof. exact builder_nonjoint_plan_ok_general_pf. Qed.

(* ---- builder_plan_ok at full strength: both paths, every input ---- *)
Theorem C08_builder_plan_ok :
  forall i b ss kl kr,
    nodup_stores (peers (i_region i)) = true ->
    is_in_joint (i_region i) = false ->
    (exists lp, get_store_peer (i_region i) (leader (i_region i)) = Some lp /\ prole lp = Voter) ->
    prepared i = Some b ->
    NoDup (map pid (peers (i_region i)) ++ map pid (b_add b)) ->
    build i = Built ss kl kr ->
    plan_ok (goal_of b) (i_region i) ss = true.
Proof.
  intros i b ss kl kr H1 H2 H3 H4 H5 H6. destruct (b_use_joint b) eqn:E.
  - eapply builder_joint_plan_ok_general_pf; eauto.
  - eapply builder_nonjoint_plan_ok_general_pf; eauto.
Qed.

(* ---- the "distinct peer ids" hypothesis, tied to PD's id allocator.  Obligation peer_ids_ok (proof/C08_Skel.v, regenerated
        from every non-test file under server/): no call site outside the builder gives a NEW peer an id - it arrives with
        Id 0 (op_unnamed) and prepareBuild takes b.cluster.AllocID().  Then every peer the plan adds carries the allocator's
        answer for its store, and builder_plan_ok needs only: the allocator's answers are fresh and pairwise distinct. ---- *)
Theorem C08_added_ids_are_allocated :
  forall i b, nodup_stores (peers (i_region i)) = true ->
    Forall (op_unnamed (pm_of_list (peers (i_region i)))) (i_ops i) -> prepared i = Some b ->
    forall a, In a (b_add b) -> pid a = alloc_of (i_alloc i) (pstore a).
Proof. intros i b H. apply added_ids_are_allocated. apply nodup_stores_ND. exact H. Qed.

Theorem C08_builder_plan_ok_with_allocator :
  forall i b ss kl kr,
    nodup_stores (peers (i_region i)) = true ->
    is_in_joint (i_region i) = false ->
    (exists lp, get_store_peer (i_region i) (leader (i_region i)) = Some lp /\ prole lp = Voter) ->
    NoDup (map pid (peers (i_region i))) ->                                          (* the region's peers have distinct ids *)
    Forall (op_unnamed (pm_of_list (peers (i_region i)))) (i_ops i) ->               (* new peers arrive without id *)
    prepared i = Some b ->
    (forall st, ~ In (alloc_of (i_alloc i) st) (map pid (peers (i_region i)))) ->    (* AllocID never returns an id in use *)
    (forall s1 s2, In s1 (map pstore (b_add b)) -> In s2 (map pstore (b_add b)) -> s1 <> s2 ->
                   alloc_of (i_alloc i) s1 <> alloc_of (i_alloc i) s2) ->            (* ... nor the same id twice *)
    build i = Built ss kl kr ->
    plan_ok (goal_of b) (i_region i) ss = true.
Proof.
  intros i b ss kl kr H1 H2 H3 H4 H5 H6 H7 H8 H9. eapply C08_builder_plan_ok; eauto.
  apply alloc_gives_distinct_ids; auto. apply nodup_stores_ND. exact H1.
Qed.

(* by C08_plan_ok_sound: every plan the builder model produces executes step by step with every clause of the property *)
Corollary C08_builder_plans_execute_safely :
  forall i b ss kl kr,
    nodup_stores (peers (i_region i)) = true ->
    is_in_joint (i_region i) = false ->
    (exists lp, get_store_peer (i_region i) (leader (i_region i)) = Some lp /\ prole lp = Voter) ->
    prepared i = Some b ->
    NoDup (map pid (peers (i_region i)) ++ map pid (b_add b)) ->
    build i = Built ss kl kr ->
    exists trs rf, exec_plan (i_region i) ss = Some (trs, rf) /\ Forall (transition_ok (goal_of b)) trs /\ final_state_ok (goal_of b) rf.
Proof. intros. apply plan_ok_sound_pf. eapply C08_builder_plan_ok; eauto. Qed.

(* non-vacuity: a joint plan with leader hand-over inside the joint state is accepted; domain sizes *)
Example C08_nonvacuous :
  let i := BInput (Cluster [up_store 1; up_store 2; up_store 3; up_store 4] true true 0)
                  (Region [Peer 1 11 Voter; Peer 2 12 Voter; Peer 3 13 Learner] 1 5 0) [] false
                  [ORemovePeer 1; OAddPeer (Peer 4 0 Voter); OSetLeader 4] [(4, 44)] in
  build i = Built [AddLearner 4 44; ChangePeerV2Enter [(4, 44)] [(1, 11)]; TransferLeader 1 4;
                   ChangePeerV2Leave [(4, 44)] [(1, 11)]; RemovePeer 1 11] true true
  /\ (exists b, prepared i = Some b /\ b_use_joint b = true /\
                plan_ok (goal_of b) (i_region i) [AddLearner 4 44; ChangePeerV2Enter [(4, 44)] [(1, 11)]; TransferLeader 1 4;
                                                  ChangePeerV2Leave [(4, 44)] [(1, 11)]; RemovePeer 1 11] = true)
  /\ length (vectors role_opts 3) = 27%nat.
Proof. split; [vm_compute; reflexivity|]. split; [eexists; split; [|split]; vm_compute; reflexivity|vm_compute; reflexivity]. Qed.

(* ---- the executor layer: on every heartbeat the step whose turn it is is judged on the region as reported NOW (leader
        included - leadership moves without any change of the epoch); the model of Dispatch never sends the command of a
        step whose precondition fails and never keeps such an operator running.  The real OperatorController is compared
        with exec_model on builder plans (commands applied or lost, leader moved between heartbeats) and exec_monitor is
        evaluated on its own observations ---- *)
Definition with_outs (xs : list xobs) (outs : list (list cmd * bool)) : list xobs :=
  map (fun xo => XObs (x_hb (fst xo)) (x_region (fst xo)) (fst (snd xo)) (snd (snd xo))) (combine xs outs).

Theorem C08_executor_never_sends_unsafe_step :
  forall xs rem alive, exec_monitor rem (with_outs xs (exec_model rem alive xs)) = None.
Proof.
  induction xs as [|x xr IH]; intros rem alive; [reflexivity|].
  cbn [exec_model]. destruct alive; cbn [negb].
  - destruct (skip_finished (x_region x) rem) as [|s t] eqn:E.
    + destruct (x_hb x); unfold with_outs; cbn [combine map exec_monitor fst snd x_region]; rewrite E; reflexivity.
    + destruct (x_hb x && negb (safe (x_region x) s)) eqn:C.
      * unfold with_outs; cbn [combine map exec_monitor fst snd x_region x_hb x_sent x_running]. rewrite E.
        cbn [length Nat.eqb negb]. rewrite !andb_false_r. reflexivity.
      * unfold with_outs; cbn [combine map exec_monitor fst snd x_region x_hb x_sent x_running]. rewrite E.
        assert (B : x_hb x && nodup_stores (peers (x_region x)) && step_ids_nonzero s && negb (spec_safe (x_region x) s) = false).
        { destruct (x_hb x); [|reflexivity]. cbn [andb] in *. apply negb_false_iff in C.
          destruct (nodup_stores (peers (x_region x))) eqn:N; [|reflexivity]. destruct (step_ids_nonzero s) eqn:Z0; [|reflexivity].
          cbn [andb]. apply negb_false_iff. apply C08_check_safety_sound; auto.
          unfold safe in C. destruct (check_safety (x_region x) s); [discriminate|reflexivity]. }
        rewrite B. cbn [andb]. apply IH.
  - unfold with_outs; cbn [combine map exec_monitor fst snd x_region x_hb x_sent x_running].
    destruct (skip_finished (x_region x) rem); [reflexivity|]. cbn [length Nat.eqb negb]. rewrite !andb_false_r. reflexivity.
Qed.

Print Assumptions C08_executor_never_sends_unsafe_step.
Print Assumptions C08_builder_leader_only_to_accepting_stores_bounded.
Print Assumptions C08_leader_bounce_rejected.
Print Assumptions C08_builder_leader_only_to_accepting_stores.
Print Assumptions C08_plan_ok_sound.
Print Assumptions C08_exec_plan_covers_steps.
Print Assumptions C08_check_safety_sound.
Print Assumptions C08_is_finish_sound.
Print Assumptions C08_pending_peers_only_delay.
Print Assumptions C08_builder_plan_ok_bounded.
Print Assumptions C08_s16_repaired.
Print Assumptions C08_demote_after_add_repaired.
Print Assumptions C08_unrepaired_plans_rejected.
Print Assumptions C08_leave_joint_ok_bounded.
Print Assumptions C08_builder_joint_plan_ok.
Print Assumptions C08_builder_nonjoint_plan_ok.
Print Assumptions C08_builder_plan_ok.
Print Assumptions C08_builder_plans_execute_safely.
Print Assumptions C08_added_ids_are_allocated.
Print Assumptions C08_builder_plan_ok_with_allocator.
