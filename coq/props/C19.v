(* C19 — DR auto-sync only declares 'sync' when every region is in sync.
   Statements only; proofs in proof/C19_DrSyncProof.v, structural obligations in proof/C19_Skel.v.
   Quantification: `s` is ANY model state, `f` ANY fault (a failing SaveReplicationStatus, not applied or
   applied-but-error, at the 1st, 2nd, ... save of the operation; a failing FileReplicater); the history statements
   quantify over every list of operations (ticks, UpdateConfig calls, region layouts and status reports of any shape
   — gaps, stale ids, any number of regions — store up/down events) from every boot situation and every scan batch size.

   Our reading of the statement (DESIGN.md 5/C19): the three clauses about *when* a transition happens are about
   the store-status-driven transitions of tickDR.  UpdateConfig has two transitions of its own with their own
   guards (majority -> dr-auto-sync enters sync_recover; a new label key enters async); they are in the model
   (update_config), they go through the same `switch` (fresh id, persisted and offered before served, failed persist
   keeps the state), and they can only make the state MORE conservative (never declare sync). *)
From Coq Require Import String.
From PDV Require Import lib.Base gen.Gen_C19 model.C19_DrSync proof.C19_DrSyncProof proof.C19_Skel.
Local Open Scope string_scope.
Local Open Scope Z_scope.

(* to async only when the failed stores of one datacenter reached its replica count (not can_sync) while a majority
   of all replicas can still be up, and the wait timeout has passed *)
Theorem C19_async_only_when :
  forall s f, in_state s Async = false -> in_state (tick s f) Async = true ->
    cs_of s = false /\ hm_of s = true /\ async_ok s = true.
Proof. exact async_only_when_pf. Qed.

(* to sync_recover only from async and only when both datacenters have fewer failed stores than replicas *)
Theorem C19_recover_only_when :
  forall s f, in_state s SyncRecover = false -> in_state (tick s f) SyncRecover = true ->
    cs_of s = true /\ in_state s Async = true.
Proof. exact recover_only_when_pf. Qed.

(* sync_recover -> sync only after every region, contiguous over the whole key space, reported integrity under the
   current state id: at the tick that declares sync (from any state reachable in any history) the regions the
   cursor has passed (ghost `chain`) are non-empty, lead from "" to "" without a gap, each carries integrity under
   one and the same id sid — the id of the sync_recover status — and each was taken from the region cache of the
   tick that passed it (C19_chain_from_cache) *)
Theorem C19_sync_only_after_full_scan :
  forall b ops f,
    let s := reach b ops in
    in_state s Sync = false -> in_state (tick s f) Sync = true ->
    exists sid, let ch := chain (tick s f) in
      ch <> [] /\ path (rev ch) "" "" /\ Forall (good sid) ch /\
      (forall r, In r ch -> In r (chain s) \/ In r (regions s)) /\
      (in_state s SyncRecover = true -> sid = cur_id s).
Proof. exact sync_only_after_full_scan_history_pf. Qed.

Theorem C19_chain_from_cache :
  forall s o s' r0 r, run_cmd s o = (s', r0) -> scan_inv s -> In r (chain s') ->
    In r (chain s) \/ (In r (regions s) /\ exists f, o = OTick f).
Proof. exact chain_origin_pf. Qed.

(* every transition carries a fresh state id: the published ids of any history are pairwise distinct and all below
   the allocator's next id; a successful switch publishes an id larger than everything published before.
   Hypothesis boot_ok: the id stored at start-up is below the allocator's next id (that is C04). *)
Theorem C19_state_id_fresh :
  forall b ops, boot_ok (b_st b) (b_id0 b) ->
    NoDup (used (reach b ops)) /\ (forall x, served (reach b ops) = Some x -> In (st_id x) (used (reach b ops))) /\
    (forall i, In i (used (reach b ops)) -> i < next_id (reach b ops)).
Proof. exact state_id_fresh_pf. Qed.
Theorem C19_switch_publishes_fresh_id :
  forall st0 s t f i s', id_inv st0 s -> switch s t f i = (s', true) ->
    exists x, served s' = Some x /\ ~ In (st_id x) (used s) /\ (forall y, served s = Some y -> st_id y < st_id x).
Proof. exact switch_fresh_pf. Qed.

(* persisted (and offered to all members) before it is served: at the one place where a status is published ... *)
Theorem C19_publish_after_persist_and_offer :
  forall s t f i s', switch s t f i = (s', true) ->
    exists st, served s' = Some st /\ stored s' = Some st /\ hd_error (files s') = Some st /\
               st = Status t (next_id s) /\ snd (wr f i) = true.
Proof. exact publish_spec_pf. Qed.
(* ... and along every history: what is served is in storage (or storage holds a newer status whose save was applied
   but reported failed) and was handed to the file replicater, unless it is the status loaded at start-up *)
Theorem C19_persist_before_serve :
  forall b ops x, boot_ok (b_st b) (b_id0 b) -> served (reach b ops) = Some x ->
    (exists y, stored (reach b ops) = Some y /\ st_id x <= st_id y /\ (st_id x = st_id y -> x = y)) /\
    (In x (files (reach b ops)) \/ b_st b = Some x).
Proof. exact persist_before_serve_pf. Qed.

(* a failed persist leaves the served state unchanged (every transition goes through `switch`: proof/C19_Skel.v) *)
Theorem C19_failed_persist_keeps_state :
  forall s t f i, snd (wr f i) = false -> served (fst (switch s t f i)) = served s.
Proof. exact failed_persist_keeps_state_pf. Qed.
Theorem C19_failed_config_switch_keeps_state_and_config :
  forall s c f s', update_config s c f = (s', false) -> served s' = served s /\ cfg s' = cfg s.
Proof. exact update_config_failed_pf. Qed.

(* a failing AllocID ends the transition before anything happened: no id spent, no file, no save, nothing served *)
Theorem C19_failed_alloc_keeps_everything :
  forall s t f i, alloc_fails f i = true -> switch s t f i = (s, false).
Proof. exact failed_alloc_keeps_everything_pf. Qed.

(* ---------- non-vacuity: dr datacenter lost, async, back, recovery over two ticks with a stale region, sync ---------- *)
Definition ex_boot : bootp :=
  Boot (Config true "zone" 2 1 0) None 10
       [Region 1 "" "k" 0 false; Region 2 "k" "" 0 false]
       [Store 1 "zone" Primary false false; Store 2 "zone" Primary false false; Store 3 "zone" Dr false false] 1.
Definition ex_ops : list op :=
  [OStore 3 true; OTick (Fault (Some (0%nat, FBefore)) false None); OTick no_fault;      (* async 12 (11 was spent on the failed save) *)
   OStore 3 false; OTick no_fault;                                                  (* sync_recover 13 *)
   OReport 1 13 true; OTick no_fault;                                               (* region 2 still stale *)
   OReport 2 12 true; OTick no_fault;                                               (* stale id *)
   OReport 2 13 true; OTick (Fault (Some (0%nat, FAfter)) true None); OTick no_fault].   (* sync: first attempt applied-but-error *)
Example C19_nonvacuous :
  map o_served (run run_op (boot_of ex_boot) ex_ops) =
    [Some (Status Sync 10); Some (Status Sync 10); Some (Status Async 12); Some (Status Async 12);
     Some (Status SyncRecover 13); Some (Status SyncRecover 13); Some (Status SyncRecover 13);
     Some (Status SyncRecover 13); Some (Status SyncRecover 13); Some (Status SyncRecover 13);
     Some (Status SyncRecover 13); Some (Status Sync 15)].
Proof. vm_compute. reflexivity. Qed.

(* ---------- what IS guaranteed about the DR_STATE files and the start-up rule (formerly observations) ----------
   The DR_STATE file goes out before the storage save and its delivery error is dropped, so members can hold a file for a status the
   leader never served.  What the code guarantees nevertheless, for every history from every boot state: *)
(* a file never names a state id the allocator has not handed out (nor one from before this leader started) *)
Theorem C19_file_ids_allocated :
  forall b ops x, In x (files (reach b ops)) -> b_id0 b <= st_id x < next_id (reach b ops).
Proof. exact file_ids_allocated_pf. Qed.
(* ids are never shared between files, and the file naming the id the leader serves under IS the served status: a member never holds
   a file for a state the leader serves under a different id / an id the leader serves a different state under *)
Theorem C19_files_have_distinct_ids :
  forall b ops x y, In x (files (reach b ops)) -> In y (files (reach b ops)) -> st_id y = st_id x -> y = x.
Proof. exact files_have_distinct_ids_pf. Qed.
Theorem C19_file_for_served_id_is_served :
  forall b ops x y, boot_ok (b_st b) (b_id0 b) ->
    served (reach b ops) = Some x -> In y (files (reach b ops)) -> st_id y = st_id x -> y = x.
Proof. exact file_for_served_id_is_served_pf. Qed.
(* the start-up rule *)
Theorem C19_startup_rule :
  forall c st id0 rs ss b, cf_dr c = true ->
  match st with
  | Some x => served (boot c st id0 rs ss b) = Some x /\ stored (boot c st id0 rs ss b) = Some x /\
              files (boot c st id0 rs ss b) = [] /\ next_id (boot c st id0 rs ss b) = id0
  | None => served (boot c st id0 rs ss b) = Some (Status Sync id0) /\ stored (boot c st id0 rs ss b) = Some (Status Sync id0) /\
            files (boot c st id0 rs ss b) = [Status Sync id0] /\ next_id (boot c st id0 rs ss b) = id0 + 1
  end.
Proof. exact startup_rule_pf. Qed.
(* drCheckAsyncTimeout over its real inputs (wait-async-timeout, the manager's creation time, the members' confirmation times) *)
Theorem C19_async_timeout_spec :
  forall s, async_ok s = true <->
    cf_timeout (cfg s) = 0 \/
    ((forall id t, In (id, t) (c_members (clk s)) -> c_now (clk s) - t > cf_timeout (cfg s)) /\ c_now (clk s) - c_init (clk s) > cf_timeout (cfg s)).
Proof. exact async_ok_spec_pf. Qed.

(* ---------- a new manager on the same storage (leader change) with a storage fault at the status load ----------
   "a storage failure leaves served and persisted state unchanged" / "sync only after a full scan", for the start-up path:
   the self-initialisation of C19_startup_rule happens only when the load SUCCEEDED and found nothing (skel_LoadReplicationStatus_ok
   ties the error-before-empty order of core.Storage.LoadReplicationStatus) *)
Theorem C19_failed_status_load_keeps_everything :
  forall s f, cf_dr (cfg s) = true -> restart s true f = (s, RErr).
Proof. exact restart_failed_load_pf. Qed.
Theorem C19_new_manager_serves_persisted_status :
  forall s f x s' r, cf_dr (cfg s) = true -> stored s = Some x -> restart s false f = (s', r) ->
    r = ROk /\ served s' = Some x /\ stored s' = Some x /\ files s' = files s /\ next_id s' = next_id s /\ cur_key s' = "" /\ cur_cnt s' = 0.
Proof. exact restart_serves_stored_pf. Qed.
Theorem C19_new_manager_initialises_only_when_nothing_stored :
  forall s lf f s' r, restart s lf f = (s', r) -> (files s' <> files s \/ next_id s' <> next_id s \/ stored s' <> stored s) ->
    cf_dr (cfg s) = true /\ lf = false /\ stored s = None.
Proof. exact restart_initialises_only_when_nothing_stored_pf. Qed.

Print Assumptions C19_async_only_when.
Print Assumptions C19_recover_only_when.
Print Assumptions C19_sync_only_after_full_scan.
Print Assumptions C19_chain_from_cache.
Print Assumptions C19_state_id_fresh.
Print Assumptions C19_switch_publishes_fresh_id.
Print Assumptions C19_publish_after_persist_and_offer.
Print Assumptions C19_persist_before_serve.
Print Assumptions C19_failed_persist_keeps_state.
Print Assumptions C19_failed_config_switch_keeps_state_and_config.
Print Assumptions C19_failed_alloc_keeps_everything.
Print Assumptions C19_file_ids_allocated.
Print Assumptions C19_files_have_distinct_ids.
Print Assumptions C19_file_for_served_id_is_served.
Print Assumptions C19_startup_rule.
Print Assumptions C19_async_timeout_spec.
Print Assumptions C19_failed_status_load_keeps_everything.
Print Assumptions C19_new_manager_serves_persisted_status.
Print Assumptions C19_new_manager_initialises_only_when_nothing_stored.
