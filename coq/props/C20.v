(* C20 — a cluster is bootstrapped exactly once and keeps one identity.  Statements only; proofs in
   proof/C20_BootstrapProof.v.

   Quantification.  Every label list `ls` is one history and one interleaving, for every cluster id c
   of the serving member: any number of Bootstrap request threads (LBegin t headerId payload ; LTxn t
   outcome ; LStart t) with valid, malformed and mismatching requests, thread slots re-used for repeated
   requests, storage outcomes Ok / ErrNotApplied / ErrApplied of the one transaction, leader changes
   (LReload = stopRaftCluster ; createRaftCluster, LStop), and any number of members initialising the
   cluster id (LMemGet m ; LMemTxn m candidate outcome) with arbitrary random candidates. *)
From Coq Require Import String.
From PDV Require Import lib.Base lib.Skel lib.C15_Guard gen.Gen_C20 model.C20_Bootstrap proof.C20_BootstrapProof proof.C20_Skel.
Local Open Scope Z_scope.

(* ---- at most one bootstrap transaction is ever applied ---- *)
Theorem C20_at_most_one_bootstrap_txn :
  forall c ls, (List.length (applied (exec step (init c) ls)) <= 1)%nat.
Proof. exact at_most_one_txn_pf. Qed.

(* ---- at most one request is answered OK, and it is the one whose transaction was applied ---- *)
Theorem C20_at_most_one_acknowledged :
  forall c ls, (List.length (acked (exec step (init c) ls)) <= 1)%nat
               /\ forall n, In n (acked (exec step (init c) ls)) -> applied (exec step (init c) ls) = [n].
Proof. exact at_most_one_ack_pf. Qed.

(* ---- exactly one succeeds.  Schedules and histories without storage faults: as soon as one valid request
        has completed its transaction, the record exists, written once, and its writer is the one request
        answered OK (or is at its last, always enabled, step — C20_winner_is_acknowledged) ---- *)
Theorem C20_exactly_one_if_some_valid_completes :
  forall c ls, guarded step no_fault (init c) ls = true ->
    done_ok (exec step (init c) ls) <> [] ->
    exists w, applied (exec step (init c) ls) = [w] /\ root (e (exec step (init c) ls)) = Some w
              /\ (acked (exec step (init c) ls) = [w] \/ exists t p, thr (exec step (init c) ls) t = Some (PWon w p)).
Proof. exact exactly_one_pf. Qed.

Theorem C20_winner_is_acknowledged :
  forall c ls t n p, thr (exec step (init c) ls) t = Some (PWon n p) ->
    exists s', step (exec step (init c) ls) (LStart t) = Some s' /\ acked s' = [n] /\ running s' = true.
Proof. exact winner_is_acknowledged_pf. Qed.

(* with storage faults (ErrApplied on the winning transaction) the record still exists exactly once, but
   possibly nobody was answered OK — said explicitly: *)
Theorem C20_record_exists_once_even_with_faults :
  forall c ls, done_ok (exec step (init c) ls) <> [] ->
    exists w, applied (exec step (init c) ls) = [w] /\ root (e (exec step (init c) ls)) = Some w.
Proof. exact record_exists_pf. Qed.

(* ---- the winner's cluster.Start fails after its transaction (LStartFail): it is answered an error although the record is
        stored.  The record is the winner's, nobody has been answered OK; and from then on, whatever is retried, nobody is
        ever answered OK and the record never changes (the cluster comes up with the next reload).  All theorems above and
        below hold for histories containing this label; only C20_exactly_one_if_some_valid_completes excludes it (no_fault). ---- *)
Theorem C20_start_failure_keeps_the_record :
  forall c ls t n p s', thr (exec step (init c) ls) t = Some (PWon n p) ->
    step (exec step (init c) ls) (LStartFail t) = Some s' ->
    e s' = e (exec step (init c) ls) /\ applied s' = [n] /\ root (e s') = Some n /\ acked s' = [] /\ thr s' t = None
    /\ running s' = running (exec step (init c) ls).
Proof. exact start_failure_pf. Qed.

Theorem C20_after_start_failure_retries_change_nothing :
  forall s l s', Inv s -> root (e s) <> None -> acked s = [] -> (forall t n p, thr s t = Some (PWon n p) -> False) ->
    step s l = Some s' ->
    root (e s') = root (e s) /\ stores (e s') = stores (e s) /\ regions (e s') = regions (e s) /\ acked s' = []
    /\ (forall t n p, thr s' t = Some (PWon n p) -> False).
Proof. exact after_start_failure_pf. Qed.

(* ---- cluster meta, bootstrap time, first store and first region all come from that one request ---- *)
Theorem C20_stored_all_from_winner :
  forall c ls,
    match root (e (exec step (init c) ls)) with
    | Some w => exists p, In (w, p) (reqs (exec step (init c) ls)) /\ check_req p = None
                          /\ btime (e (exec step (init c) ls)) = Some w
                          /\ stores (e (exec step (init c) ls)) = [(store_of p, w)]
                          /\ regions (e (exec step (init c) ls)) = [(region_of p, w)]
                          /\ applied (exec step (init c) ls) = [w]
                          /\ forall n, In n (acked (exec step (init c) ls)) -> n = w
    | None => btime (e (exec step (init c) ls)) = None /\ stores (e (exec step (init c) ls)) = []
              /\ regions (e (exec step (init c) ls)) = [] /\ acked (exec step (init c) ls) = []
    end.
Proof. exact stored_all_from_winner_pf. Qed.

Theorem C20_running_implies_bootstrapped :
  forall c ls, running (exec step (init c) ls) = true -> root (e (exec step (init c) ls)) <> None.
Proof. exact running_implies_bootstrapped_pf. Qed.

(* ---- every other request is refused without changing anything (in any state, reachable or not) ---- *)
Theorem C20_loser_changes_nothing :
  forall s t o s', root (e s) <> None -> step s (LTxn t o) = Some s' ->
    e s' = e s /\ applied s' = applied s /\ acked s' = acked s /\ running s' = running s /\ thr s' t = None.
Proof. exact loser_changes_nothing_pf. Qed.

(* ---- the winner learns late that it has won (etcd's answer is held: OCommit ... OFinish): whatever happens in between,
        it is the same bootstrap as an undelayed one; every request handled in that window is a loser (C20_loser_changes_nothing:
        the root exists); a transaction etcd commits within the time the request waits for it is the Ok outcome ---- *)
Theorem C20_late_answer_is_the_same_bootstrap :
  forall s t s1 o, boot_commit s t = Some (s1, BStarted) -> boot_finish s1 t o = boot_finish s t Ok.
Proof. exact late_answer_same_bootstrap_pf. Qed.

Theorem C20_commit_of_a_loser_is_its_refusal :
  forall s t s1, boot_commit s t = Some (s1, BConflict) -> boot_finish s t Ok = Some (s1, BConflict).
Proof. exact commit_loser_is_finish_pf. Qed.

Theorem C20_slow_commit_below_request_timeout_is_ok :
  forall r t ms, (ms < request_timeout_ms)%Z -> run_op1 r (OFinishSlow t ms) = run_op1 r (OFinish t Ok).
Proof. exact slow_commit_below_timeout_pf. Qed.

Theorem C20_request_timeout_is_the_codes : kv_request_timeout_ns = (request_timeout_ms * 1000000)%Z.
Proof. exact request_timeout_matches_code. Qed.

(* ---- one identity at start-up: a member does not start when ANY peer of its initial-cluster that answers belongs to another
        etcd cluster - however many peers agree with it, wherever the foreign one stands in the walk, whoever is down ---- *)
Theorem C20_startup_check_refuses_any_foreign_peer :
  forall local answers id, In (Some id) answers -> id <> local -> startup_check local answers = false.
Proof. exact startup_check_refuses_foreign_pf. Qed.

Theorem C20_startup_check_accepts_iff_all_answers_agree :
  forall local answers, startup_check local answers = true <-> (forall id, In (Some id) answers -> id = local).
Proof. exact startup_check_spec. Qed.

(* a mismatching cluster id, an already running cluster, a malformed payload: refused, nothing changes *)
Theorem C20_refused_at_begin :
  forall s t hid p s', (hid <> scid s \/ running s = true \/ check_req p <> None) ->
    step s (LBegin t hid p) = Some s' -> s' = s.
Proof. exact refused_at_begin_pf. Qed.

(* "carrying a different cluster id" includes carrying none: a request with no header message has id 0 *)
Theorem C20_headerless_request_refused :
  forall s t p s', scid s <> 0 -> step s (LBegin t (hid_of None) p) = Some s' -> s' = s.
Proof. exact headerless_refused_pf. Qed.

(* ---- all members agree on a single cluster id that never changes afterwards ---- *)
Theorem C20_cluster_id_agreed :
  forall c ls m v, mids (exec step (init c) ls) m = Some v -> cid (e (exec step (init c) ls)) = Some v.
Proof. exact cluster_id_agreed_pf. Qed.

Theorem C20_members_agree :
  forall c ls m m' v v', mids (exec step (init c) ls) m = Some v -> mids (exec step (init c) ls) m' = Some v' -> v = v'.
Proof. exact members_agree_pf. Qed.

Theorem C20_cluster_id_stable :
  forall s l s' v, cid (e s) = Some v -> step s l = Some s' -> cid (e s') = Some v.
Proof. exact cluster_id_stable_pf. Qed.

Theorem C20_member_obtains_id :
  forall s m c s', step s (LMemTxn m c Ok) = Some s' -> exists v, mids s' m = Some v /\ cid (e s') = Some v.
Proof. exact member_obtains_id_pf. Qed.

(* ---- requests carrying a different cluster id are refused: over the handler table regenerated from
        server/grpc_service.go, every handler except GetMembers (how a client learns the id) and the two
        PD-to-PD calls SyncMaxTS / GetDCLocationInfo validates through validateRequest, a direct comparison
        (Tso) or RegionSyncer.Sync (SyncRegions) — and those three do compare ---- *)
Theorem C20_mismatched_id_refused :
  forall h ks, In (h, ks) handlers -> exempt h = false -> exists k, In k ks /\ checks_cluster_id k = true.
Proof. exact mismatched_id_refused_table_pf. Qed.

Theorem C20_validateRequest_compares_cluster_id :
  In (IfE "v1.GetClusterId() != v0.clusterID" [Ret] []) skel_validateRequest      (* v0 = the receiver, v1 = the header parameter *)
  /\ In "v4 != v0.server.ClusterID()"%string syncer_sync_conds.
Proof. exact (conj validateRequest_compares syncer_compares). Qed.

(* ... and nothing is done before the validation: apart from receiving on a stream, IsClosed and
   UpdateServiceGCSafePoint's own lock, no handler calls anything on the server before the validating statement
   (RegionHeartbeat alone first answers NOT_BOOTSTRAPPED, read-only, when no cluster is running) *)
Theorem C20_nothing_before_validation :
  forall h cs, In (h, cs) pre_validation_calls -> exempt h = false -> h <> "RegionHeartbeat"%string ->
    forall c, In c cs -> In c harmless_before_validation.
Proof. exact nothing_before_validation_pf. Qed.

(* ---- on a stream the refusal is per message, not per stream: for every list of messages on ONE stream of a streaming
        handler, a message whose header carries another id, id 0 or is absent is answered with the mismatch refusal
        (RegionHeartbeat without a running cluster: NOT_BOOTSTRAPPED) whatever preceded it on the stream; the refusal ends
        the stream.  The code is tied to this by the position of the check: directly in the body of the receive loop -
        not under another condition, not before the loop - and before the call that serves the message, in Server.Tso,
        Server.RegionHeartbeat and RegionSyncer.Sync ---- *)
Theorem C20_stream_refusal_is_per_message :
  forall name running c hs k h b, nth_error hs k = Some h -> hid_of h <> c ->
    nth_error (stream_run name running c hs) k = Some b -> b = BMismatch \/ b = BNotBoot.
Proof. exact stream_per_message_pf. Qed.

Theorem C20_stream_stops_at_refusal :
  forall name running c hs k, nth_error (stream_run name running c hs) k = Some BMismatch ->
    List.length (stream_run name running c hs) = S k.
Proof. exact stream_stops_at_refusal_pf. Qed.

Theorem C20_stream_handlers_check_every_message :
  in_loop_before (is_check "v5.GetHeader().GetClusterId() != v0.clusterID") (is_call "HandleTSORequest") skel_Tso = true
  /\ in_loop_before (is_call "validateRequest") (is_call "HandleRegionHeartbeat") skel_RegionHeartbeat = true
  /\ in_loop_before (is_check "v4 != v0.server.ClusterID()") (is_call "syncHistoryRegion") skel_SyncerSync = true.
Proof. exact stream_checks_every_message_pf. Qed.

(* ---- one identity under configuration updates: PutClusterConfig is the other writer of the cluster record.  Whatever
        list of bodies is sent (no body, unset id = 0, another id, the right id), the id of the stored and served cluster
        meta stays the cluster's: RaftCluster.PutConfig refuses every body whose id is not the cluster's ---- *)
Theorem C20_cluster_config_keeps_identity :
  forall c bodies meta, fst meta = c -> fst (fold_left (put_meta c) bodies meta) = c.
Proof. exact config_identity_pf. Qed.

Theorem C20_put_config_compares_cluster_id : In (IfE "v1.GetId() != v0.clusterID" [Ret] []) skel_PutConfig.
Proof. exact put_config_compares. Qed.

(* non-vacuity: three concurrent valid requests, a lost one, a fault, a reload, a late request; three members *)
Example C20_nonvacuous :
  let p n := Payload (Some (1000 + n)) (Some (Region (2000 + n) true true [Peer (3000 + n) (1000 + n)])) in
  let ls := [LBegin 0 7 (p 1); LBegin 1 7 (p 2); LBegin 2 7 (p 3); LTxn 1 Ok; LTxn 0 Ok; LStart 1; LTxn 2 ErrApplied;
             LReload; LBegin 0 7 (p 4); LBegin 0 8 (p 5);
             LMemGet 0; LMemGet 1; LMemTxn 1 55 Ok; LMemTxn 0 66 Ok; LMemGet 2] in
  let s := exec step (init 7) ls in
  guarded step no_fault (init 7) (firstn 6 ls) = true /\
  applied s = [1%nat] /\ acked s = [1%nat] /\ stores (e s) = [(1002, 1%nat)] /\ regions (e s) = [(2002, 1%nat)] /\
  done_ok s = [0%nat; 1%nat] /\ running s = true /\ mids s 0%nat = Some 55 /\ mids s 1%nat = Some 55 /\ mids s 2%nat = Some 55.
Proof. vm_compute. repeat split; reflexivity. Qed.

Print Assumptions C20_at_most_one_bootstrap_txn.
Print Assumptions C20_at_most_one_acknowledged.
Print Assumptions C20_exactly_one_if_some_valid_completes.
Print Assumptions C20_winner_is_acknowledged.
Print Assumptions C20_record_exists_once_even_with_faults.
Print Assumptions C20_start_failure_keeps_the_record.
Print Assumptions C20_after_start_failure_retries_change_nothing.
Print Assumptions C20_stored_all_from_winner.
Print Assumptions C20_running_implies_bootstrapped.
Print Assumptions C20_loser_changes_nothing.
Print Assumptions C20_refused_at_begin.
Print Assumptions C20_headerless_request_refused.
Print Assumptions C20_cluster_id_agreed.
Print Assumptions C20_members_agree.
Print Assumptions C20_cluster_id_stable.
Print Assumptions C20_member_obtains_id.
Print Assumptions C20_mismatched_id_refused.
Print Assumptions C20_validateRequest_compares_cluster_id.
Print Assumptions C20_nothing_before_validation.
Print Assumptions C20_cluster_config_keeps_identity.
Print Assumptions C20_put_config_compares_cluster_id.
Print Assumptions C20_stream_refusal_is_per_message.
Print Assumptions C20_stream_stops_at_refusal.
Print Assumptions C20_stream_handlers_check_every_message.
Print Assumptions C20_late_answer_is_the_same_bootstrap.
Print Assumptions C20_commit_of_a_loser_is_its_refusal.
Print Assumptions C20_slow_commit_below_request_timeout_is_ok.
Print Assumptions C20_request_timeout_is_the_codes.
Print Assumptions C20_startup_check_refuses_any_foreign_peer.
Print Assumptions C20_startup_check_accepts_iff_all_answers_agree.
