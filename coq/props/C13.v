(* C13 — Placement rule updates are all-or-nothing and the key-range index is exact.
   Statements only; proofs in proof/C13_RulesProof.v, structural obligations in proof/C13_Skel.v.

   Part 1 (index): for every set of rules with pairwise different (group, id) and well-formed ranges
   (wf_rules: what adjustRule enforces) that buildRuleList accepts.
   Part 2 (updates): the state machine `step` of model/C13_Rules.v (restart, every kind of update with a
   storage fault at any write and any write order, foreign storage writes).  The model mirrors the code
   as it is; where the unchanged code violates a clause the clause is stated in full, refuted by a
   witness, and the strongest true statement is proved with the excluded class as a hypothesis. *)
From Coq Require Import String Permutation Sorting.Sorted.
From PDV Require Import lib.Base lib.C12_Order gen.Gen_C13 model.C13_Rules proof.C13_RulesProof proof.C13_UpdateProof proof.C13_Skel.
Local Open Scope list_scope.

(* ---------- Part 1: the key-range index ---------- *)

(* the rules reported for a key are exactly the configured rules whose range contains the key
   (start <= key, and key < end or end empty), in compareRule order *)
Theorem C13_rules_by_key_exact :
  forall rules rl k, wf_rules rules -> build_rule_list rules = inr rl ->
    StronglySorted rule_lt (get_rules_by_key rl k) /\
    (forall y, In y (get_rules_by_key rl k) <-> In y rules /\ covers y k = true).
Proof. intros rules rl k; exact (rules_by_key_exact_build rules rl k). Qed.

(* compareRule is the documented order: group index, group id, index, id *)
Theorem C13_rule_order_documented :
  forall a b, rule_lt a b <->
    (group_index a < group_index b)%Z \/ (group_index a = group_index b /\
      (key_lt (r_gid a) (r_gid b) \/ (r_gid a = r_gid b /\
        ((r_index a < r_index b)%Z \/ (r_index a = r_index b /\ key_lt (r_id a) (r_id b)))))).
Proof. exact rule_order_documented_pf. Qed.

(* a region is given the rules of its segment after rule and group override (prepareRulesForApply of
   the rules covering its start key) if no segment boundary lies strictly inside it, and none otherwise *)
Theorem C13_apply_rules_for_region :
  forall rules rl s e, wf_rules rules -> build_rule_list rules = inr rl ->
    match get_rules_for_apply_region rl s e with
    | Some rs =>
        rs = prepare_rules_for_apply (get_rules_by_key rl s) /\ get_rules_by_key rl s <> [] /\
        check_apply_rules rs = None /\
        ~ (exists k, boundary rules k /\ key_lt s k /\ (e = [] \/ key_lt k e))
    | None =>
        get_rules_by_key rl s = [] \/ (exists k, boundary rules k /\ key_lt s k /\ (e = [] \/ key_lt k e))
    end.
Proof. exact apply_region_exact_build. Qed.

(* the split keys reported for (s, e) are exactly the segment boundaries strictly inside it, ascending *)
Theorem C13_split_keys_exact :
  forall rules rl s e, wf_rules rules -> build_rule_list rules = inr rl ->
    StronglySorted key_lt (get_split_keys rl s e) /\
    (forall k, In k (get_split_keys rl s e) <-> boundary rules k /\ key_lt s k /\ (e = [] \/ key_lt k e)).
Proof. exact split_keys_exact_build. Qed.

(* the override loop = "drop everything before the last overriding group, and inside each remaining
   group everything before its last overriding rule" *)
Theorem C13_prepare_eq_override_spec :
  forall rules, prepare_rules_for_apply rules = override_spec rules.
Proof. exact prepare_eq_override_spec_pf. Qed.

(* the unstable sort of the split points is harmless: any arrangement of points with equal keys gives the same index *)
Theorem C13_sweep_order_irrelevant :
  forall rules pts1 pts2 rl1 rl2, wf_rules rules ->
    (forall p, In p pts1 <-> In p (points_of rules)) -> NoDup pts1 ->
    StronglySorted (fun a b => key_le (p_key a) (p_key b)) pts1 ->
    (forall p, In p pts2 <-> In p (points_of rules)) -> NoDup pts2 ->
    StronglySorted (fun a b => key_le (p_key a) (p_key b)) pts2 ->
    sweep pts1 [] = inr rl1 -> sweep pts2 [] = inr rl2 ->
    forall k, get_rules_by_key rl1 k = get_rules_by_key rl2 k.
Proof. exact sweep_order_irrelevant. Qed.

(* an accepted rule set leaves no key without a valid rule set (no rule / no voter or leader / several leaders) *)
Definition C13_accepted_covers_every_key_full : Prop :=
  forall rules rl k, wf_rules rules -> build_rule_list rules = inr rl ->
    get_rules_by_key rl k <> [] /\ check_apply_rules (prepare_rules_for_apply (get_rules_by_key rl k)) = None.

Definition gap_rule : rule := Rule [112;100]%N [114;49]%N 0 false [16]%N [] Voter 3 101 true (Some (default_group [112;100]%N)).

(* REFUTED on the unchanged tree: one rule [0x10, +inf) is accepted; the keys below 0x10 have no rule *)
Theorem C13_accepted_covers_every_key_refuted : ~ C13_accepted_covers_every_key_full.
Proof.
  intros H. specialize (H [gap_rule] [Range [16]%N [gap_rule] [gap_rule]] []).
  destruct H as [H _].
  - constructor; [repeat constructor; intros []|]. intros r [<-|[]]. left; reflexivity.
  - vm_compute. reflexivity.
  - apply H. vm_compute. reflexivity.
Qed.

Theorem C13_accepted_covers_every_key_partial :
  forall rules rl k, wf_rules rules -> build_rule_list rules = inr rl ->
    (exists b, boundary rules b /\ key_le b k) ->       (* excluded: keys below the first start key *)
    get_rules_by_key rl k <> [] /\ check_apply_rules (prepare_rules_for_apply (get_rules_by_key rl k)) = None.
Proof. exact covered_above_first_boundary. Qed.

Corollary C13_accepted_covers_every_key_when_a_rule_starts_at_the_empty_key :
  forall rules rl k y, wf_rules rules -> build_rule_list rules = inr rl -> In y rules -> r_start y = [] ->
    get_rules_by_key rl k <> [] /\ check_apply_rules (prepare_rules_for_apply (get_rules_by_key rl k)) = None.
Proof. exact covered_when_rule_starts_at_empty_key. Qed.

(* ---------- Part 2: updates ---------- *)

(* a rejected update (adjustRule or buildRuleList error) changes nothing observable *)
Definition C13_rejected_update_changes_nothing_full : Prop :=
  forall ops u w m,
    st_live (run_state step init_state ops) = Some m ->
    forall st' o, step (run_state step init_state ops) (OUpdate u None w) = (st', o) ->
    (o_res o = RErr EBuild \/ o_res o = RErr EContent) ->
    option_map dump_of (st_live st') = Some (dump_of m) /\ st_store st' = st_store (run_state step init_state ops).

Definition s5_history : list op :=
  [ORestart 3;
   OUpdate (USetRule (Rule [97]%N [114;49]%N 0 false [] [] Voter 3 101 true None)) None [WRule [97]%N [114;49]%N];
   OUpdate (USetGroup (Group [98]%N 1 false)) None [WGroup [98]%N];
   OUpdate (USetRule (Rule [98]%N [114;50]%N 0 false [] [] Learner 1 102 true None)) None [WRule [98]%N [114;50]%N];
   OUpdate (USetGroup (Group [99]%N 2 false)) None [WGroup [99]%N];
   OUpdate (USetRule (Rule [99]%N [114;51]%N 0 false [] [] Voter 1 103 true None)) None [WRule [99]%N [114;51]%N]]%Z.

(* REFUTED on the unchanged tree (DESIGN.md section 7, S5): SetRuleGroup{b, index 3, override} is rejected,
   but GetAllRules now lists b/r2 after c/r3 *)
Theorem C13_rejected_update_changes_nothing_refuted : ~ C13_rejected_update_changes_nothing_full.
Proof.
  intros H.
  destruct (st_live (run_state step init_state s5_history)) as [m|] eqn:Em; [|vm_compute in Em; discriminate].
  destruct (step (run_state step init_state s5_history) (OUpdate (USetGroup (Group [98]%N 3 true)) None [])) as [st' o] eqn:Es.
  specialize (H s5_history (USetGroup (Group [98]%N 3 true)) [] m Em st' o Es).
  vm_compute in Em. injection Em as <-. vm_compute in Es. injection Es as <- <-.
  destruct H as [H _]; [left; reflexivity|]. vm_compute in H. discriminate.
Qed.

(* what does hold for every rejected or failed update, from every state: the index, the served groups,
   the served rules up to their group pointers; the storage too when the patch was rejected *)
Theorem C13_failed_update_keeps_served :
  forall m s p order f m' s' e ok,
    try_commit m s p order f = (m', s', Some e, ok) ->
    m_list m' = m_list m /\ c_groups (m_conf m') = c_groups (m_conf m) /\
    map (fun kr => (fst kr, strip (snd kr))) (c_rules (m_conf m')) =
    map (fun kr => (fst kr, strip (snd kr))) (c_rules (m_conf m)) /\
    (e = EBuild -> s' = s).
Proof. exact failed_update_keeps_served. Qed.

(* ... and nothing at all when the update does not touch a group (excluded class: patches with a group entry) *)
Theorem C13_rejected_update_changes_nothing_partial :
  forall m s p order f m' s' e ok,
    conf_adjusted (m_conf m) -> m_groups p = [] ->
    try_commit m s p order f = (m', s', Some e, ok) -> m' = m.
Proof. exact failed_update_without_group_change. Qed.

(* accepted updates are complete and durable: in every history that starts PD on an empty storage and
   then issues updates of any kind without storage faults (accepted or rejected, retries included), the
   storage holds exactly the served rule contents and the served non-default groups after every step *)
Theorem C13_storage_mirrors_served :
  forall mr ups, forallb fault_free_update ups = true ->
    match st_live (run_state step init_state (ORestart mr :: ups)) with
    | Some m => let s := st_store (run_state step init_state (ORestart mr :: ups)) in
                s_rules s = map_vals sv (c_rules (m_conf m)) /\
                s_groups s = filter nd (c_groups (m_conf m))
    | None => True
    end.
Proof. exact storage_mirrors_served_pf. Qed.

(* still to prove (Pass B): stated, not dropped *)
(* after every accepted update of a fault-free history a restarted PD serves exactly what is served *)
Definition C13_accepted_update_reload_equal_todo : Prop :=
  forall ops, forallb is_fault_free ops = true ->
    let st := run_state step init_state ops in
    forall m, st_live st = Some m -> reload_dump (st_store st) = Some (dump_of m).
(* after a storage failure retrying the same update converges to the state of the unfailed update *)
Definition C13_retry_converges_todo : Prop :=
  forall ops u f w1 w2, forallb is_fault_free ops = true ->
    let st := run_state step init_state ops in
    forall st1 o1 st2 o2 st3 o3,
      step st (OUpdate u f w1) = (st1, o1) -> o_res o1 = RErr EStorage ->
      step st1 (OUpdate u None w2) = (st2, o2) -> o_res o2 = ROk ->
      (exists w3, step st (OUpdate u None w3) = (st3, o3) /\ o_res o3 = ROk) ->
      o_live o2 = o_live o3 /\ o_reload o2 = o_reload o3.

(* non-vacuity: nested, adjacent and unbounded ranges, an overriding group; five segments *)
Example C13_nonvacuous :
  let g0 := Some (default_group [112;100]%N) in let ga := Some (Group [97]%N 1 true) in
  let rules := [Rule [112;100]%N [100]%N 0 false [] [] Voter 3 1 true g0;
                Rule [112;100]%N [101]%N 1 false [16]%N [48]%N Learner 1 2 true g0;
                Rule [97]%N [102]%N 0 false [32]%N [64]%N Voter 5 3 true ga;
                Rule [112;100]%N [103]%N 2 true [48]%N [] Voter 1 4 true g0]%Z in
  wf_rules rules /\
  exists rl, build_rule_list rules = inr rl /\ map rg_start rl = [[]; [16]; [32]; [48]; [64]]%N /\
             map (fun g => map r_ver (rg_apply g)) rl = [[1]; [1; 2]; [3]; [3]; [4]]%Z.
Proof.
  cbv zeta. split.
  - constructor.
    + vm_compute. repeat constructor; cbn; intuition discriminate.
    + intros r Hr. cbn in Hr. destruct Hr as [<-|[<-|[<-|[<-|[]]]]]; cbn; auto; right; reflexivity.
  - eexists. split; [vm_compute; reflexivity|]. split; reflexivity.
Qed.

Print Assumptions C13_rules_by_key_exact.
Print Assumptions C13_rule_order_documented.
Print Assumptions C13_apply_rules_for_region.
Print Assumptions C13_split_keys_exact.
Print Assumptions C13_prepare_eq_override_spec.
Print Assumptions C13_sweep_order_irrelevant.
Print Assumptions C13_accepted_covers_every_key_refuted.
Print Assumptions C13_accepted_covers_every_key_partial.
Print Assumptions C13_rejected_update_changes_nothing_refuted.
Print Assumptions C13_failed_update_keeps_served.
Print Assumptions C13_rejected_update_changes_nothing_partial.
Print Assumptions C13_storage_mirrors_served.
