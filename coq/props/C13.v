(* C13 — Placement rule updates are all-or-nothing and the key-range index is exact.
   Statements only; proofs in proof/C13_RulesProof.v, structural obligations in proof/C13_Skel.v.

   Part 1 (index): for every set of rules with pairwise different (group, id) and well-formed ranges
   (wf_rules: what adjustRule enforces) that buildRuleList accepts.
   Part 2 (updates): the state machine `step` of model/C13_Rules.v (restart, every kind of update with a
   storage fault at any write and any write order, foreign storage writes).  The model mirrors the code
   as it is now, i.e. with the fixes 4fc9a45 and 4f573f0; the two clauses those fixes repaired were
   stated in full and refuted before, and are proved at full strength now (the old witnesses stay as
   regression Examples and in corpus/C13.json). *)
From Coq Require Import String Permutation Sorting.Sorted.
From PDV Require Import lib.Base lib.C12_Order gen.Gen_C13 model.C13_Rules proof.C13_RulesProof proof.C13_UpdateProof proof.C13_HistoryProof proof.C13_FrameProof proof.C13_RestartProof model.C13_Paged proof.C13_PagedProof proof.C13_LockProof proof.C13_Skel.
Local Open Scope list_scope.

(* ---------- Part 1: the key-range index ---------- *)

(* the rules reported for a key are exactly the configured rules whose range contains the key
   (start <= key, and key < end or end empty), in compareRule order *)
Theorem C13_rules_by_key_exact :
  forall rules rl k, wf_rules rules -> build_rule_list rules = inr rl ->
    StronglySorted rule_lt (get_rules_by_key rl k) /\
    (forall y, In y (get_rules_by_key rl k) <-> In y rules /\ covers y k = true).
Proof. intros rules rl k; exact (rules_by_key_exact_build rules rl k). Qed.

(* compareRule is the documented order: group index, group id, index, id *)
Theorem C13_rule_order_documented :
  forall a b, rule_lt a b <->
    (group_index a < group_index b)%Z \/ (group_index a = group_index b /\
      (key_lt (r_gid a) (r_gid b) \/ (r_gid a = r_gid b /\
        ((r_index a < r_index b)%Z \/ (r_index a = r_index b /\ key_lt (r_id a) (r_id b)))))).
Proof. exact rule_order_documented_pf. Qed.

(* a region is given the rules of its segment after rule and group override (prepareRulesForApply of
   the rules covering its start key) if no segment boundary lies strictly inside it, and none otherwise *)
Theorem C13_apply_rules_for_region :
  forall rules rl s e, wf_rules rules -> build_rule_list rules = inr rl ->
    match get_rules_for_apply_region rl s e with
    | Some rs =>
        rs = prepare_rules_for_apply (get_rules_by_key rl s) /\ get_rules_by_key rl s <> [] /\
        check_apply_rules rs = None /\
        ~ (exists k, boundary rules k /\ key_lt s k /\ (e = [] \/ key_lt k e))
    | None =>
        get_rules_by_key rl s = [] \/ (exists k, boundary rules k /\ key_lt s k /\ (e = [] \/ key_lt k e))
    end.
Proof. exact apply_region_exact_build. Qed.

(* the split keys reported for (s, e) are exactly the segment boundaries strictly inside it, ascending *)
Theorem C13_split_keys_exact :
  forall rules rl s e, wf_rules rules -> build_rule_list rules = inr rl ->
    StronglySorted key_lt (get_split_keys rl s e) /\
    (forall k, In k (get_split_keys rl s e) <-> boundary rules k /\ key_lt s k /\ (e = [] \/ key_lt k e)).
Proof. exact split_keys_exact_build. Qed.

(* the override loop = "drop everything before the last overriding group, and inside each remaining
   group everything before its last overriding rule" *)
Theorem C13_prepare_eq_override_spec :
  forall rules, prepare_rules_for_apply rules = override_spec rules.
Proof. exact prepare_eq_override_spec_pf. Qed.

(* the unstable sort of the split points is harmless: any arrangement of points with equal keys gives the same index *)
Theorem C13_sweep_order_irrelevant :
  forall rules pts1 pts2 rl1 rl2, wf_rules rules ->
    (forall p, In p pts1 <-> In p (points_of rules)) -> NoDup pts1 ->
    StronglySorted (fun a b => key_le (p_key a) (p_key b)) pts1 ->
    (forall p, In p pts2 <-> In p (points_of rules)) -> NoDup pts2 ->
    StronglySorted (fun a b => key_le (p_key a) (p_key b)) pts2 ->
    sweep pts1 [] = inr rl1 -> sweep pts2 [] = inr rl2 ->
    forall k, get_rules_by_key rl1 k = get_rules_by_key rl2 k.
Proof. exact sweep_order_irrelevant. Qed.

(* an accepted rule set leaves no key without a valid rule set (no rule / no voter or leader / several
   leaders).  Refuted before the fix 4f573f0 (a single rule [0x10, +inf) was accepted); proved since. *)
Theorem C13_accepted_covers_every_key :
  forall rules rl k, wf_rules rules -> build_rule_list rules = inr rl ->
    get_rules_by_key rl k <> [] /\ check_apply_rules (prepare_rules_for_apply (get_rules_by_key rl k)) = None.
Proof. exact accepted_covers_every_key_pf. Qed.

(* regression: the old witness is rejected now *)
Definition gap_rule : rule := Rule [112;100]%N [114;49]%N 0 false [16]%N [] Voter 3 101 true (Some (default_group [112;100]%N)).
Example C13_gap_rule_rejected : build_rule_list [gap_rule] = inl ENoRuleForRange.
Proof. vm_compute. reflexivity. Qed.

(* ---------- Part 2: updates ---------- *)

(* an update that returns an error — rejected by adjustRule or buildRuleList, or failed at any storage
   write — changes nothing that is served (the RuleManager is *equal* to what it was, so every observer
   answers as before); a rejected one leaves the storage untouched as well.  In every reachable state:
   any history of restarts, updates of every kind, storage faults and foreign storage writes.
   Refuted before the fix 4fc9a45 (DESIGN.md section 7, S5); proved since. *)
Theorem C13_rejected_update_changes_nothing :
  forall ops u f w st' o e,
    step (run_state step init_state ops) (OUpdate u f w) = (st', o) ->
    o_res o = RErr e ->
    st_live st' = st_live (run_state step init_state ops) /\
    (e <> EStorage -> st_store st' = st_store (run_state step init_state ops)).
Proof. exact rejected_update_changes_nothing_pf. Qed.

Theorem C13_storage_failure_keeps_served :
  forall m s p order f m' s' e ok,
    canonical (m_conf m) -> try_commit m s p order f = (m', s', Some e, ok) -> m' = m /\ (e = EBuild -> s' = s).
Proof. exact failed_update_changes_nothing. Qed.

(* regression: the S5 history; the rejected SetRuleGroup{b, index 3, override} now leaves GetAllRules alone *)
Definition s5_history : list op :=
  [ORestart 3;
   OUpdate (USetRule (Rule [97]%N [114;49]%N 0 false [] [] Voter 3 101 true None)) None [WRule [97]%N [114;49]%N];
   OUpdate (USetGroup (Group [98]%N 1 false)) None [WGroup [98]%N];
   OUpdate (USetRule (Rule [98]%N [114;50]%N 0 false [] [] Learner 1 102 true None)) None [WRule [98]%N [114;50]%N];
   OUpdate (USetGroup (Group [99]%N 2 false)) None [WGroup [99]%N];
   OUpdate (USetRule (Rule [99]%N [114;51]%N 0 false [] [] Voter 1 103 true None)) None [WRule [99]%N [114;51]%N]]%Z.
Example C13_s5_history_unchanged :
  let st := run_state step init_state s5_history in
  let '(st', o) := step st (OUpdate (USetGroup (Group [98]%N 3 true)) None []) in
  o_res o = RErr EBuild /\ option_map (fun m => d_all (dump_of m)) (st_live st') = Some [101; 0; 102; 103]%Z /\ st_live st' = st_live st.
Proof. vm_compute. repeat split. Qed.

(* accepted updates are complete and durable: in every history that starts PD on an empty storage and
   then issues updates of any kind without storage faults (accepted or rejected, retries included), the
   storage holds exactly the served rule contents and the served non-default groups after every step *)
Theorem C13_storage_mirrors_served :
  forall mr ups, forallb fault_free_update ups = true ->
    match st_live (run_state step init_state (ORestart mr :: ups)) with
    | Some m => let s := st_store (run_state step init_state (ORestart mr :: ups)) in
                s_rules s = map_vals sv (c_rules (m_conf m)) /\
                s_groups s = filter nd (c_groups (m_conf m))
    | None => True
    end.
Proof. exact storage_mirrors_served_pf. Qed.

(* after every update of a history that starts PD on an empty storage and issues updates of any kind
   without storage faults (accepted or rejected; retries included), a PD restarted on the storage loads
   exactly what is being served: every observer of the second RuleManager answers as the live one *)
Theorem C13_accepted_update_reload_equal :
  forall mr ups, forallb fault_free_update ups = true ->
    let st := run_state step init_state (ORestart mr :: ups) in
    forall m, st_live st = Some m -> reload_dump (st_store st) = Some (dump_of m).
Proof. exact accepted_update_reload_equal_pf. Qed.

(* an accepted update touches only what it names.  In every history that starts PD on an empty storage and
   issues updates of any kind without storage faults: after an accepted update, every rule under a key the
   update does not name is served as before (same rule object), and every served rule was served under
   that key before or is one the update carries.  "Names" (`names_key`): the key of a rule the update
   carries; a deleted key; for a prefix deletion the group and a prefix of the id; for the bundle
   operations the group id, compared for EQUALITY (DeleteGroupBundle with regexp=false takes a plain id,
   not a pattern: "dc" does not name "all-dc-east"); every key for a full replacement *)
Theorem C13_accepted_update_touches_only_what_it_names :
  forall mr ups u w st' o, forallb fault_free_update ups = true ->
    let st := run_state step init_state (ORestart mr :: ups) in
    step st (OUpdate u None w) = (st', o) -> o_res o = ROk ->
    forall m m', st_live st = Some m -> st_live st' = Some m' ->
      (forall g i, names_key u g i = false -> cver (m_conf m') (g, i) = cver (m_conf m) (g, i)) /\
      (forall k r', rget k (c_rules (m_conf m')) = Some r' ->
         cver (m_conf m) k = Some (r_ver r') \/ In (r_ver r') (map r_ver (rules_of_update u))).
Proof. exact accepted_update_frame_pf. Qed.

(* regression (seeded change C13-10): a plain id is matched literally and in full *)
Example C13_delete_bundle_plain_id :
  names_key (UDeleteBundle [100; 99]%N) [97; 108; 108; 45; 100; 99]%N [114; 49]%N = false /\
  names_key (UDeleteBundle []%N) [112; 100]%N [100]%N = false.
Proof. vm_compute. split; reflexivity. Qed.

(* after a storage failure in the middle of an update, retrying the update converges: the retry ends in
   exactly the state (served configuration, index, storage) the update would have produced had its first
   attempt not failed.  In every reachable state (any history, including earlier faults and foreign
   writes), whichever write failed, whether or not the failing write was applied, whatever the orders *)
Theorem C13_retry_converges :
  forall ops u f w1 w2 w3 st1 o1 st2 o2 st3 o3,
    let st := run_state step init_state ops in
    step st (OUpdate u (Some f) w1) = (st1, o1) -> o_res o1 = RErr EStorage ->
    step st1 (ORetry u w2) = (st2, o2) -> o_res o2 = ROk ->
    step st (OUpdate u None w3) = (st3, o3) -> o_res o3 = ROk ->
    st2 = st3.
Proof. exact retry_converges_pf. Qed.

(* ---------- Part 3: the restart path reads the whole storage ---------- *)
(* `initialize` of the state machine loads every stored rule and group; in the code that is
   Storage.LoadRules / LoadRuleGroups = LoadRangeByPrefix, a paged scan (pages of minKVRangeLimit keys,
   next page from last key + "\x00").  For every ascending key list (any number of keys, any prefix
   chains among them) and every page size >= 1 the scan returns each key of the range exactly once, in
   order; with the regenerated page size it returns exactly the keys that have the prefix.  The proof
   rests on `next_key_succ`: last ++ [0] is the immediate successor of last (obligation
   `load_next_key_ok` in proof/C13_Skel.v ties that expression to the source). *)
Theorem C13_paged_load_complete :
  forall limit, (1 <= limit)%nat -> forall fuel lo hi keys,
    StronglySorted key_lt keys -> (length (filter (in_range lo hi) keys) < fuel)%nat ->
    paged fuel limit lo hi keys = Some (filter (in_range lo hi) keys).
Proof. exact paged_complete. Qed.

Theorem C13_load_by_prefix_all_with_prefix :
  forall q b keys, (b <? 255)%N = true -> StronglySorted key_lt keys ->
    load_range_by_prefix (q ++ [b]) keys = Some (filter (is_prefix (q ++ [b])) keys).
Proof. exact load_by_prefix_all_with_prefix. Qed.

(* foreign writes below rules/ (environment labels OCorruptRule / OCorruptDrop): what a restart guarantees then.
   Proved for every history: Initialize is total in the model (garbage, invalid, duplicated and mis-keyed entries
   are branches of load_rules, not errors), the configuration it serves is canonical (reachable_canonical) and the
   storage stays a pair of sorted maps (reachable_sorted).  And (proof/C13_RestartProof.v; true only since fix
   f6216a3; checked by the monitor `C13:restart-leaves-storage-different-*` on every restart of every run): after
   a successful restart the stored rules are exactly the served ones, each under its own key, whatever was
   written below rules/ before - garbage, rules adjustRule refuses, rules under a key that is not their own,
   several records claiming one key.  Proof: an invariant of loadRules' scan over the processed prefix of the
   storage (`scan_inv`: per key, what is served is the record moved there, or nothing if the key is marked for
   deletion, or the record found in place), then the effect of the repairs key by key (`repaired_get`). *)
Theorem C13_restart_repairs_storage :
  forall ops mr st' o m,
    step (run_state step init_state ops) (ORestart mr) = (st', o) -> o_res o = ROk -> st_live st' = Some m ->
    map_vals strip_sval (s_rules (st_store st')) = map_vals sv (c_rules (m_conf m)).
Proof. exact restart_repairs_storage_pf. Qed.

(* `strip_sval` forgets the in-memory group pointer of a stored rule (Rule.group is `json:"-"`: it is not part
   of a record; the model's foreign writes may carry one).  When no stored rule carries one - PD's own writes
   never do - the equality is literal: *)
Theorem C13_restart_repairs_storage_literal :
  forall ops mr st' o m,
    step (run_state step init_state ops) (ORestart mr) = (st', o) -> o_res o = ROk -> st_live st' = Some m ->
    groupless (s_rules (st_store st')) ->
    s_rules (st_store st') = map_vals sv (c_rules (m_conf m)).
Proof. exact restart_repairs_storage_literal_pf. Qed.

(* regression: records under foreign keys, two records claiming one key, garbage, an invalid rule - after the
   restart the storage holds exactly the served rules, each under its own key (was false before fix f6216a3:
   the rewritten key was deleted again) *)
Example C13_restart_repairs_example :
  let r (g i : list N) (v : Z) := Rule g i 0 false [] [] Voter 1 v true None in
  let st := run_state step init_state
    [OCorruptRule ([97], [49])%N (SVRule (r [97]%N [50]%N 1%Z));        (* a/2 stored under a/1 *)
     OCorruptRule ([97], [50])%N (SVRule (r [97]%N [50]%N 2%Z));        (* a/2 under its own key too *)
     OCorruptRule ([97], [51])%N SVGarbage;
     OCorruptRule ([98], [49])%N (SVRule (Rule [98]%N [49]%N 0%Z false [] [] Voter 0%Z 3%Z true None));  (* count 0 *)
     ORestart 3] in
  option_map (fun m => map (fun kr => r_ver (snd kr)) (c_rules (m_conf m))) (st_live st) = Some [1]%Z /\
  map fst (s_rules (st_store st)) = [([97], [50])]%N.
Proof. vm_compute. split; reflexivity. Qed.

(* the store set (RuleManager's StoreSetInformer) is an input of client updates only (`UWithStores`): it can make
   adjustRule refuse a rule that matches no store, never change what an accepted update does; the load path
   (`initialize`, every ORestart / leader change) does not have it at all since fix f88d4e2, so the restart
   theorems above hold whatever becomes of the stores after a rule was accepted *)
Theorem C13_store_check_only_refuses :
  forall c um u p, make_patch c (UWithStores um u) = Some p -> make_patch c u = Some p.
Proof. exact store_check_only_refuses. Qed.

(* a failed Initialize retried on the same manager is a fresh start (fix 7c6ce3c): the earlier attempt leaves
   nothing behind in the manager; what it may have done to the storage are loadRules' repairs *)
Theorem C13_retried_initialize_is_a_fresh_start :
  forall st mr, step st (OInitAgain mr) = step st (ORestart mr).
Proof. reflexivity. Qed.

(* ---------- Part 4: concurrency ---------- *)
(* every public method of RuleManager is one section under m's mutex (exclusive for Initialize, the updates and
   SetKeyType; shared and assignment-free for the readers); what runs before the lock only validates the
   arguments; the helpers never touch the mutex.  Overlapping calls are therefore executions of the same
   calls' locked sections in some order, i.e. the histories of `step` quantified over above. *)
Theorem C13_updates_are_one_locked_section :
  forallb one_locked_section
    [skel_Initialize; skel_SetRule; skel_DeleteRule; skel_SetRules; skel_Batch; skel_SetRuleGroup; skel_DeleteRuleGroup;
     skel_SetAllGroupBundles; skel_SetGroupBundle; skel_DeleteGroupBundle; skel_SetKeyType] = true.
Proof. exact updates_are_one_locked_section. Qed.
Theorem C13_readers_are_one_locked_section :
  forallb one_locked_section
    [skel_GetRule; skel_GetSplitKeys; skel_GetAllRules; skel_GetRulesByGroup; skel_GetRulesByKey;
     skel_GetRulesForApplyRegion; skel_GetRuleGroup; skel_GetRuleGroups; skel_GetAllGroupBundles; skel_GetGroupBundle;
     skel_IsInitialized] = true.
Proof. exact readers_are_one_locked_section. Qed.

(* non-vacuity: nested, adjacent and unbounded ranges, an overriding group; five segments *)
Example C13_nonvacuous :
  let g0 := Some (default_group [112;100]%N) in let ga := Some (Group [97]%N 1 true) in
  let rules := [Rule [112;100]%N [100]%N 0 false [] [] Voter 3 1 true g0;
                Rule [112;100]%N [101]%N 1 false [16]%N [48]%N Learner 1 2 true g0;
                Rule [97]%N [102]%N 0 false [32]%N [64]%N Voter 5 3 true ga;
                Rule [112;100]%N [103]%N 2 true [48]%N [] Voter 1 4 true g0]%Z in
  wf_rules rules /\
  exists rl, build_rule_list rules = inr rl /\ map rg_start rl = [[]; [16]; [32]; [48]; [64]]%N /\
             map (fun g => map r_ver (rg_apply g)) rl = [[1]; [1; 2]; [3]; [3]; [4]]%Z.
Proof.
  cbv zeta. split.
  - constructor.
    + vm_compute. repeat constructor; cbn; intuition discriminate.
    + intros r Hr. cbn in Hr. destruct Hr as [<-|[<-|[<-|[<-|[]]]]]; cbn; auto; right; reflexivity.
  - eexists. split; [vm_compute; reflexivity|]. split; reflexivity.
Qed.

Print Assumptions C13_rules_by_key_exact.
Print Assumptions C13_rule_order_documented.
Print Assumptions C13_apply_rules_for_region.
Print Assumptions C13_split_keys_exact.
Print Assumptions C13_prepare_eq_override_spec.
Print Assumptions C13_sweep_order_irrelevant.
Print Assumptions C13_accepted_covers_every_key.
Print Assumptions C13_rejected_update_changes_nothing.
Print Assumptions C13_storage_failure_keeps_served.
Print Assumptions C13_storage_mirrors_served.
Print Assumptions C13_accepted_update_reload_equal.
Print Assumptions C13_retry_converges.
Print Assumptions C13_paged_load_complete.
Print Assumptions C13_store_check_only_refuses.
Print Assumptions C13_updates_are_one_locked_section.
Print Assumptions C13_readers_are_one_locked_section.
Print Assumptions C13_load_by_prefix_all_with_prefix.
Print Assumptions C13_accepted_update_touches_only_what_it_names.
Print Assumptions C13_restart_repairs_storage.
Print Assumptions C13_restart_repairs_storage_literal.
Print Assumptions C13_retried_initialize_is_a_fresh_start.
