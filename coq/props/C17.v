(* C17 — Persisted stores and regions are loaded back completely and pruned consistently.
   Statements only; proofs in proof/C17_PagingProof.v, proof/C17_StorageProof.v, proof/C17_Skel.v.

   Quantification.  `ops` ranges over all histories of SaveStore / DeleteStore / SaveStoreWeight / SaveRegion /
   DeleteRegion / Flush / reopen / byte-budget changes / loads, with arbitrary uint64 ids (`ops_ok`: 0 <= id < 2^64) —
   any number of items, any id distribution; page limits and fault patterns are universally quantified in the
   paging theorem (C17_paging_exact: any limit >= 1, any minimum, any LoadRange fault oracle, any callback that only
   deletes ids it has been shown).  Namespaces are id-sorted association lists (zero-padded keys: lemma
   C17_pad_covers_uint64); LoadRange is end-exclusive (obligations src_*_LoadRange_ok). *)
From Coq Require Import String.
From PDV Require Import lib.Base lib.C17_Map gen.Gen_C17 model.C17_Storage
     proof.C17_PagingProof proof.C17_StorageProof proof.C17_PruneProof proof.C17_Skel.
Local Open Scope Z_scope.
Local Open Scope list_scope.

(* 20 zero-padded digits hold every uint64, so key order equals id order *)
Theorem C17_pad_covers_uint64 :
  two64 <= 10 ^ Gen_C17.store_key_pad /\ two64 <= 10 ^ Gen_C17.region_key_pad /\
  two64 <= 10 ^ Gen_C17.leader_weight_key_pad /\ two64 <= 10 ^ Gen_C17.region_weight_key_pad.
Proof. exact pad_covers_uint64. Qed.

(* ------------------------------------------------------------------------------------------ *)
(* 1. the paging loop, for every page limit, fault pattern and callback                        *)
(* ------------------------------------------------------------------------------------------ *)
(* Never an endless loop (given the stated fuel); when it finishes, the callback has seen exactly the items with
   next <= id < 2^64-1, each once, in id order, and storage/callback state are the result of processing them in
   that order. *)
Theorem C17_paging_exact :
  forall (V C : Type) (fails : nat -> amap V -> bool) (cb : C -> Z * V -> C * list Z) (min_limit : Z),
    1 <= min_limit ->
    forall (J : C -> Z -> Prop),
      (forall c b b', J c b -> b <= b' -> J c b') ->
      (forall c it, J c (fst it) ->
         (forall d, In d (snd (cb c it)) -> d <= fst it) /\ J (fst (cb c it)) (fst it + 1)) ->
    forall fuel m next limit call c acc lo0,
      sorted_from lo0 m -> 0 <= next -> J c next -> 1 <= limit ->
      (length (todo m next) + Z.to_nat (Z.log2 limit) < fuel)%nat ->
      let res := page_loop fails cb min_limit fuel m next limit call c acc in
      fst (fst (fst res)) <> RDiverged /\
      (fst (fst (fst res)) = RDone ->
         snd (fst (fst res)) = acc ++ todo m next /\ (snd (fst res), snd res) = final cb m c (todo m next)) /\
      sorted_from lo0 (snd (fst res)).
Proof. exact (@page_loop_spec). Qed.

(* the adaptive limit of loadRegions walks 10000, 5000, 2500, 1250, 625, 312, 156 and then gives up *)
Theorem C17_region_limit_chain : Chain Gen_C17.minKVRangeLimit 156 Gen_C17.maxKVRangeLimit.
Proof. exact region_limit_chain. Qed.

(* ------------------------------------------------------------------------------------------ *)
(* 2. stores                                                                                  *)
(* ------------------------------------------------------------------------------------------ *)
(* after any history the stores namespace is exactly what the history saved and did not delete (with the weights
   last saved), and LoadStores hands over every entry below 2^64-1 once, in id order, with those weights *)
Theorem C17_load_stores :
  forall ops, ops_ok ops ->
    let s := run_state run_op sinit ops in
    (forall id, lookup (stores s) id = fold_left store_want ops no_want id) /\
    (forall id, lookup (lweight s) id = fold_left lw_want ops no_want id) /\
    (forall id, lookup (rweight s) id = fold_left rw_want ops no_want id) /\
    sorted_from 0 (stores s) /\
    snd (run_op s OLoadStores) = BStores RDone (map (decorate s) (filter (fun p => fst p <? max_id) (stores s))).
Proof. exact load_stores_pf. Qed.

(* Full statement: every store saved and not deleted is returned exactly once. *)
Definition C17_load_returns_each_saved_once_full : Prop :=
  forall ops, ops_ok ops ->
    let s := run_state run_op sinit ops in
    forall id p, fold_left store_want ops no_want id = Some p ->
      exists lw rw, snd (run_op s OLoadStores) = BStores RDone (map (decorate s) (stores s)) /\
                    In (id, p, lw, rw) (map (decorate s) (stores s)).

(* refuted on the unchanged code: id 2^64-1 is never loaded (exclusive range end; S9) *)
Theorem C17_load_returns_each_saved_once_refuted : ~ C17_load_returns_each_saved_once_full.
Proof.
  intros H. unfold C17_load_returns_each_saved_once_full in H. specialize (H [OSaveStore max_id 7]). cbv zeta in H.
  assert (Hok : ops_ok [OSaveStore max_id 7]).
  { split; [|exact I]. change (0 <= max_id < two64). unfold max_id, two64. lia. }
  destruct (H Hok max_id 7 ltac:(vm_compute; reflexivity)) as (lw & rw & E & _).
  vm_compute in E. discriminate E.
Qed.

(* the excluded class spelled out: no stored id equals 2^64-1 *)
Theorem C17_load_returns_each_saved_once_partial :
  forall ops, ops_ok ops ->
    let s := run_state run_op sinit ops in
    (forall p, fold_left store_want ops no_want max_id <> Some p) ->
    snd (run_op s OLoadStores) = BStores RDone (map (decorate s) (stores s)) /\
    sorted_from 0 (stores s) /\
    forall id p, fold_left store_want ops no_want id = Some p <->
                 In (id, p, weight_of (lweight s) id, weight_of (rweight s) id) (map (decorate s) (stores s)).
Proof. exact load_returns_each_saved_once_partial_pf. Qed.

(* ------------------------------------------------------------------------------------------ *)
(* 3. regions, direct backend (Storage.Base: memKV / etcd), any key sizes                      *)
(* ------------------------------------------------------------------------------------------ *)
Theorem C17_load_regions_direct :
  forall ops, ops_ok ops -> plain_ops ops = true ->
    let s := run_state run_op sinit ops in
    (forall id, lookup (base_r s) id = fold_left region_want ops no_rwant id) /\
    sorted_from 0 (base_r s) /\
    (* whatever the byte budget: no endless loop, and a load that finishes is complete *)
    (exists st l, snd (run_op s OLoadRegions) = BRegions st l /\ st <> RDiverged /\
                  (st = RDone -> l = filter (fun p => fst p <? max_id) (base_r s))) /\
    (* and it does finish when every page of at most 156 items fits the budget (in particular without a budget) *)
    ((forall page, Z.of_nat (length page) <= 156 -> over_budget (budget s) O page = false) ->
     snd (run_op s OLoadRegions) = BRegions RDone (filter (fun p => fst p <? max_id) (base_r s))).
Proof. exact load_regions_direct_pf. Qed.

(* ------------------------------------------------------------------------------------------ *)
(* 4. regions, RegionStorage backend: the write-back batch                                    *)
(* ------------------------------------------------------------------------------------------ *)
(* Full statement: once Flush has returned, a load returns exactly what the history saved and did not delete. *)
Definition C17_flush_makes_durable_full : Prop :=
  forall ops, ops_ok ops -> plain_ops ops = true ->
    let s := run_state run_op srs (ops ++ [OFlush]) in
    forall id, lookup (ldb s) id = fold_left region_want ops no_rwant id.

(* refuted on the unchanged code: DeleteRegion bypasses the batch (S10): save, delete, flush -> still stored *)
Theorem C17_flush_makes_durable_refuted : ~ C17_flush_makes_durable_full.
Proof.
  intros H. unfold C17_flush_makes_durable_full in H. specialize (H [OSaveRegion 5 (RV 1 2 1 1 10); ODeleteRegion 5]).
  assert (Hok : ops_ok [OSaveRegion 5 (RV 1 2 1 1 10); ODeleteRegion 5]) by (cbn; repeat split; vm_compute; discriminate).
  specialize (H Hok eq_refl 5). vm_compute in H. discriminate H.
Qed.

(* the excluded class spelled out: no DeleteRegion of an id whose save is still buffered *)
Theorem C17_flush_makes_durable_partial :
  forall ops, ops_ok ops -> plain_ops ops = true -> safe_deletes srs ops ->
    let s := run_state run_op srs (ops ++ [OFlush]) in
    batch s = [] /\
    (forall id, lookup (ldb s) id = fold_left region_want ops no_rwant id) /\
    sorted_from 0 (ldb s) /\
    snd (run_op s OLoadRegions) = BRegions RDone (filter (fun p => fst p <? max_id) (ldb s)).
Proof. exact flush_makes_durable_partial_pf. Qed.

(* a stop of the process between two batches loses the unflushed batch and nothing else *)
Theorem C17_crash_keeps_flushed :
  forall s, ldb (fst (run_op s OCrash)) = ldb s /\ batch (fst (run_op s OCrash)) = [] /\
            base_r (fst (run_op s OCrash)) = base_r s.
Proof. exact crash_keeps_flushed. Qed.

(* ------------------------------------------------------------------------------------------ *)
(* 5. pruning                                                                                 *)
(* ------------------------------------------------------------------------------------------ *)
(* After LoadRegions(CheckAndPutRegion) into an empty cluster (no LoadRange faults, ids below 2^64-1), storage and
   cache hold the same set of regions with the same values, cached ids are distinct and no two cached ranges
   intersect: stale and overlapped leftovers are gone from both. *)
Theorem C17_load_prunes_to_cache :
  forall (m : amap rv), sorted_from 0 m -> (forall k v, In (k, v) m -> k < max_id) ->
    let res := load_regions never_fails check_and_put m [] in
    fst (fst (fst res)) = RDone /\ same_content (snd (fst res)) (snd res) /\ disjoint (snd res) /\ ids_distinct (snd res).
Proof. exact load_prunes_to_cache_pf. Qed.

(* Full statement without the bound on ids. *)
Definition C17_load_prunes_to_cache_full : Prop :=
  forall (m : amap rv), sorted_from 0 m -> (forall k v, In (k, v) m -> k < two64) ->
    let res := load_regions never_fails check_and_put m [] in
    same_content (snd (fst res)) (snd res).
(* refuted on the unchanged code: region 2^64-1 stays in storage and never reaches the cache (S9) *)
Theorem C17_load_prunes_to_cache_refuted : ~ C17_load_prunes_to_cache_full.
Proof.
  intros H. unfold C17_load_prunes_to_cache_full in H.
  specialize (H [(max_id, RV 1 2 1 1 10)]).
  assert (Hs : sorted_from 0 [(max_id, RV 1 2 1 1 10)]) by (split; [unfold max_id, two64; lia|exact I]).
  assert (Hb : forall k v, In (k, v) [(max_id, RV 1 2 1 1 10)] -> k < two64).
  { intros k v [E|[]]. inversion E. unfold max_id. lia. }
  specialize (H Hs Hb). cbv zeta in H.
  destruct (H max_id (RV 1 2 1 1 10)) as [H1 _].
  assert (In (max_id, RV 1 2 1 1 10) (snd (load_regions never_fails check_and_put [(max_id, RV 1 2 1 1 10)] []))).
  { apply H1. vm_compute. reflexivity. }
  vm_compute in H0. exact H0.
Qed.

(* With the RegionStorage backend the loads read leveldb only: a save that is still buffered when the pruning load
   runs is invisible to it (stated, not proved: checks/C17.json "todo"). *)
Definition C17_prune_with_pending_batch_todo : Prop :=
  forall s, SInv s -> use_rs s = true -> batch s = [] ->
    (forall k v, In (k, v) (ldb s) -> k < max_id) ->
    match snd (run_op s OLoadIntoCache) with
    | BCache RDone _ c after => same_content after c /\ disjoint c
    | _ => False
    end.

(* non-vacuity *)
Example C17_nonvacuous :
  let ops := [OSaveStore 3 30; OSaveStore 1 10; OSaveWeight 1 2000 500; OSaveStore 2 20; ODeleteStore 2;
              OSaveStore max_id 99; OLoadStores] in
  ops_ok ops /\
  last (run run_op sinit ops) BUnit = BStores RDone [(1, 10, 2000, 500); (3, 30, 1000, 1000)].
Proof. split; [cbn; repeat split; vm_compute; discriminate|vm_compute; reflexivity]. Qed.

Example C17_batch_nonvacuous :
  let ops := [OSaveRegion 7 (RV 1 2 1 1 10); OSaveRegion 5 (RV 2 3 1 1 10); OFlush; ODeleteRegion 7; OSaveRegion 9 (RV 3 0 1 1 10)] in
  ops_ok ops /\ plain_ops ops = true /\ safe_deletes srs ops /\
  map fst (ldb (run_state run_op srs (ops ++ [OFlush]))) = [5; 9].
Proof. split; [cbn; repeat split; vm_compute; discriminate|]. split; [reflexivity|]. split; [cbn; repeat split; reflexivity|vm_compute; reflexivity]. Qed.

Print Assumptions C17_pad_covers_uint64.
Print Assumptions C17_paging_exact.
Print Assumptions C17_region_limit_chain.
Print Assumptions C17_load_stores.
Print Assumptions C17_load_returns_each_saved_once_refuted.
Print Assumptions C17_load_returns_each_saved_once_partial.
Print Assumptions C17_load_regions_direct.
Print Assumptions C17_flush_makes_durable_refuted.
Print Assumptions C17_flush_makes_durable_partial.
Print Assumptions C17_crash_keeps_flushed.
Print Assumptions C17_load_prunes_to_cache.
Print Assumptions C17_load_prunes_to_cache_refuted.
