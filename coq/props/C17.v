(* C17 — Persisted stores and regions are loaded back completely and pruned consistently.
   Statements only; proofs in proof/C17_PagingProof.v, proof/C17_StorageProof.v, proof/C17_PruneProof.v, proof/C17_WarmProof.v, proof/C17_Skel.v.

   Quantification.  `ops` ranges over all histories of SaveStore / DeleteStore / SaveStoreWeight / SaveRegion /
   DeleteRegion / Flush / reopen / byte-budget changes / loads, with arbitrary uint64 ids (`ops_ok`: 0 <= id < 2^64) —
   any number of items, any id distribution; page limits and fault patterns are universally quantified in the
   paging theorem (C17_paging_exact: any limit >= 1, any minimum, any LoadRange fault oracle, any callback that only
   deletes ids it has been shown).  Storage faults: a Save / Remove on Storage.Base may return an error with the write
   applied or not (ops O…F with the flag `applied`): the want-functions count such a write iff it was applied, i.e. an
   acknowledged write is always reflected and an errored one leaves the old or the new value, nothing else; the timed
   background flush of RegionStorage is the label OTick, admitted anywhere in a plain history.  The four defects found here (S9 at both loaders, S10) are fixed in /repo
   (fce77ba, 8a5de01); the statements below are the full-strength ones about the repaired code.  Namespaces are id-sorted association lists (zero-padded keys: lemma
   C17_pad_covers_uint64); LoadRange is end-exclusive (obligations src_*_LoadRange_ok). *)
From Coq Require Import String.
From PDV Require Import lib.Base lib.C17_Map gen.Gen_C17 model.C17_Storage
     proof.C17_PagingProof proof.C17_StorageProof proof.C17_PruneProof proof.C17_WarmProof proof.C17_Skel.
Local Open Scope Z_scope.
Local Open Scope list_scope.

(* 20 zero-padded digits hold every uint64, so key order equals id order *)
Theorem C17_pad_covers_uint64 :
  two64 <= 10 ^ Gen_C17.store_key_pad /\ two64 <= 10 ^ Gen_C17.region_key_pad /\
  two64 <= 10 ^ Gen_C17.leader_weight_key_pad /\ two64 <= 10 ^ Gen_C17.region_weight_key_pad.
Proof. exact pad_covers_uint64. Qed.

(* ------------------------------------------------------------------------------------------ *)
(* 1. the paging loop, for every page limit, fault pattern and callback                        *)
(* ------------------------------------------------------------------------------------------ *)
(* Never an endless loop (given the stated fuel) — also not at the uint64 boundary, where nextID = id + 1 wraps to 0;
   when it finishes, the callback has seen exactly the items with next <= id < 2^64, each once, in id order, and
   storage / callback state are the result of processing them in that order. *)
Theorem C17_paging_exact :
  forall (V C : Type) (fails : nat -> amap V -> bool) (cb : C -> Z * V -> C * list Z) (min_limit : Z),
    1 <= min_limit ->
    forall (J : C -> Z -> Prop),
      (forall c b b', J c b -> b <= b' -> J c b') ->
      (forall c it, J c (fst it) ->
         (forall d, In d (snd (cb c it)) -> d <= fst it) /\ J (fst (cb c it)) (fst it + 1)) ->
    forall fuel m next limit call c acc lo0,
      sorted_from lo0 m -> 0 <= next -> J c next -> 1 <= limit ->
      (length (todo m next) + Z.to_nat (Z.log2 limit) < fuel)%nat ->
      let res := page_loop fails cb no_rw min_limit fuel m next limit call c acc in
      fst (fst (fst res)) <> RDiverged /\
      (fst (fst (fst res)) = RDone ->
         snd (fst (fst res)) = acc ++ todo m next /\ (snd (fst res), snd res) = final cb m c (todo m next)) /\
      sorted_from lo0 (snd (fst res)).
Proof. exact (@page_loop_spec). Qed.

(* the same for a callback that may also REWRITE the record it is shown (rw: the cluster's load callback brings a stale record
   of a cached id up to date): any callback that - whatever its state - only has records deleted that the scan has reached.
   Last clause: without LoadRange failures the load ends with RDone. *)
Theorem C17_paging_exact_with_rewrite :
  forall (V C : Type) (fails : nat -> amap V -> bool) (cb : C -> Z * V -> C * list Z) (rw : C -> Z * V -> option V) (min_limit : Z),
    1 <= min_limit ->
    (forall c it d, In d (snd (cb c it)) -> d <= fst it) ->
    forall fuel m next limit call c acc,
      sorted_from 0 m -> 0 <= next -> 1 <= limit ->
      (length (todo m next) + Z.to_nat (Z.log2 limit) < fuel)%nat ->
      let res := page_loop fails cb rw min_limit fuel m next limit call c acc in
      fst (fst (fst res)) <> RDiverged /\
      (fst (fst (fst res)) = RDone ->
         snd (fst (fst res)) = acc ++ todo m next /\ (snd (fst res), snd res) = final_rw cb rw m c (todo m next)) /\
      sorted_from 0 (snd (fst res)) /\
      ((forall n p, fails n p = false) -> fst (fst (fst res)) = RDone).
Proof. exact (@page_loop_rw_spec). Qed.

(* the adaptive limit of loadRegions walks 10000, 5000, 2500, 1250, 625, 312, 156 and then gives up *)
Theorem C17_region_limit_chain : Chain Gen_C17.minKVRangeLimit 156 Gen_C17.maxKVRangeLimit.
Proof. exact region_limit_chain. Qed.

(* ------------------------------------------------------------------------------------------ *)
(* 2. stores                                                                                  *)
(* ------------------------------------------------------------------------------------------ *)
(* Every store saved and not deleted is returned exactly once by LoadStores, with the weights last saved (default
   1.0), for every history and every id in [0, 2^64) — the maximum id included (fce77ba; before that fix the statement
   was refuted by [OSaveStore (2^64-1) 7], now the Example C17_max_id_is_loaded). *)
Theorem C17_load_returns_each_saved_once :
  forall ops, ops_ok ops ->
    let s := run_state run_op sinit ops in
    snd (run_op s OLoadStores) = BStores RDone (map (decorate s) (stores s)) /\
    sorted_from 0 (stores s) /\
    (forall id, lookup (lweight s) id = fold_left lw_want ops no_want id) /\
    (forall id, lookup (rweight s) id = fold_left rw_want ops no_want id) /\
    forall id p, fold_left store_want ops no_want id = Some p <->
                 In (id, p, weight_of (lweight s) id, weight_of (rweight s) id) (map (decorate s) (stores s)).
Proof. exact load_returns_each_saved_once_pf. Qed.

(* ------------------------------------------------------------------------------------------ *)
(* 3. regions, direct backend (Storage.Base: memKV / etcd), any key sizes                      *)
(* ------------------------------------------------------------------------------------------ *)
(* The regions namespace is what the history left; whatever the byte budget the load never loops for ever and, when it
   finishes, returns every region exactly once in id order; it finishes whenever pages of at most 156 items fit. *)
Theorem C17_load_regions_direct :
  forall ops, ops_ok ops -> direct_ops ops = true ->
    let s := run_state run_op sinit ops in
    (forall id, lookup (base_r s) id = fold_left region_want ops no_rwant id) /\
    sorted_from 0 (base_r s) /\
    (exists st l, snd (run_op s OLoadRegions) = BRegions st l /\ st <> RDiverged /\ (st = RDone -> l = base_r s)) /\
    ((forall page, Z.of_nat (length page) <= 156 -> over_budget (budget s) O page = false) ->
     snd (run_op s OLoadRegions) = BRegions RDone (base_r s)).
Proof. exact load_regions_direct_pf. Qed.

(* ------------------------------------------------------------------------------------------ *)
(* 4. regions, RegionStorage backend: the write-back batch                                    *)
(* ------------------------------------------------------------------------------------------ *)
(* Once Flush has returned, leveldb holds exactly what the history saved and did not delete, and a load returns it
   (8a5de01: a delete also drops the pending save; before that fix the statement was refuted by save 5, delete 5,
   flush — now the Example C17_delete_drops_pending_save). *)
Theorem C17_flush_makes_durable :
  forall ops, ops_ok ops -> plain_ops ops = true ->
    let s := run_state run_op srs (ops ++ [OFlush]) in
    batch s = [] /\
    (forall id, lookup (ldb s) id = fold_left region_want ops no_rwant id) /\
    sorted_from 0 (ldb s) /\
    snd (run_op s OLoadRegions) = BRegions RDone (ldb s).
Proof. exact flush_makes_durable_pf. Qed.

(* LoadRegionsOnce sets its once-flag only after a successful load: a first call that fails half-way (an unreadable
   value) delivers the regions below the bad one and changes nothing; the retry delivers every region; only then are
   later calls skipped *)
Theorem C17_load_once_retry :
  forall s bad, SInv s -> use_rs s = true -> loaded_once s = false -> lookup (ldb s) bad <> None ->
    let s1 := fst (run_op s (OLoadOnceCorrupt bad)) in
    snd (run_op s (OLoadOnceCorrupt bad)) = BRegions RFailed (filter (fun p => fst p <? bad) (ldb s)) /\
    s1 = s /\
    snd (run_op s1 OLoadOnce) = BRegions RDone (filter (fun p => fst p <? range_end) (ldb s)) /\
    snd (run_op (fst (run_op s1 OLoadOnce)) OLoadOnce) = BSkipped.
Proof. exact load_once_retry_pf. Qed.

(* a stop of the process inside a flush: the leveldb batch write is atomic, so leveldb holds either everything the
   batch carried or nothing of it *)
Theorem C17_crash_in_flush_atomic :
  forall s written, SInv s ->
    let s' := fst (run_op s (OCrashInFlush written)) in
    batch s' = [] /\ base_r s' = base_r s /\
    forall id, lookup (ldb s') id = if written then overlay s id else lookup (ldb s) id.
Proof. exact crash_in_flush_atomic. Qed.

(* a stop of the process between two batches loses the unflushed batch and nothing else *)
Theorem C17_crash_keeps_flushed :
  forall s, ldb (fst (run_op s OCrash)) = ldb s /\ batch (fst (run_op s OCrash)) = [] /\
            base_r (fst (run_op s OCrash)) = base_r s.
Proof. exact crash_keeps_flushed. Qed.

(* ------------------------------------------------------------------------------------------ *)
(* 5. pruning                                                                                 *)
(* ------------------------------------------------------------------------------------------ *)
(* After LoadRegions(CheckAndPutRegion) into an empty cluster (no LoadRange faults), every stored region was offered
   once, storage and cache hold the same set of regions with the same values, cached ids are distinct and no two
   cached ranges intersect: stale and overlapped leftovers are gone from both — the region with id 2^64-1 included. *)
Theorem C17_load_prunes_to_cache :
  forall (m : amap rv), sorted_from 0 m -> (forall k v, In (k, v) m -> k < two64) ->
    let res := load_regions never_fails check_and_put m [] in
    fst (fst (fst res)) = RDone /\ same_content (snd (fst res)) (snd res) /\ disjoint (snd res) /\ ids_distinct (snd res) /\
    snd (fst (fst res)) = m.
Proof. exact load_prunes_to_cache_pf. Qed.

(* the same for the operation, either backend; with the RegionStorage backend a pruned region does not wait in the
   write-back batch either, so a later flush cannot bring it back *)
Theorem C17_prune_operation :
  forall s, SInv s -> (use_rs s = true \/ budget s = None) ->
    (forall k v, In (k, v) (regions_of s (use_rs s)) -> k < two64) ->
    exists c after,
      snd (run_op s OLoadIntoCache) = BCache RDone (regions_of s (use_rs s)) c after /\
      same_content after c /\ disjoint c /\
      regions_of (fst (run_op s OLoadIntoCache)) (use_rs s) = after /\
      (forall id, lookup (regions_of s (use_rs s)) id <> None -> lookup after id = None ->
                  In id (map fst (batch (fst (run_op s OLoadIntoCache)))) -> use_rs s = false) /\
      (batch s = [] -> batch (fst (run_op s OLoadIntoCache)) = []).
Proof. exact prune_op_pf. Qed.

(* Loading over a WARM cache (a member elected again without a restart, a follower following a new leader): a record that
   the cache rejects as stale while it holds a region of the same id shares its key with the live region — the load
   callback (BasicCluster.CheckAndPutLoadedRegion, fix in /repo) rewrites it from the cache and deletes nothing. Before
   the fix the key was deleted and the served region had no record at all (Example C17_reelected_leader below is the
   audit's history). *)
Theorem C17_stale_record_is_rewritten :
  forall (m : amap rv) (c : cache) k v v' nx,
    sorted_from 0 m -> accepts c (k, v) = false -> find_id c k = Some v' ->
    let r := step_item put_loaded rw_loaded (m, c, nx) (k, v) in
    snd (fst r) = c /\ lookup (fst (fst r)) k = Some v' /\ forall j, j <> k -> lookup (fst (fst r)) j = lookup m j.
Proof. exact stale_record_is_rewritten_pf. Qed.

(* while every cached region lies behind the record that is read (a cold start: the cache holds loaded records only), the
   callback is CheckAndPutRegion for new ids and for accepted records, so the cold-start theorems above speak about it too *)
Theorem C17_loaded_callback_cold :
  forall c r, (forall o, In o c -> fst o <= fst r) -> find_id c (fst r) = None \/ accepts c r = true ->
    put_loaded c r = check_and_put c r /\ rw_loaded c r = None.
Proof. intros c r Hb [H|H]; [exact (put_loaded_cold c r Hb H)|exact (put_loaded_accepted c r Hb H)]. Qed.

(* over ANY cache (warm, lagging behind the storage): the callback never has a record deleted that the load has not reached
   yet - the hypothesis under which C17_paging_exact holds - and otherwise answers as CheckAndPutRegion does (dc3cb19) *)
Theorem C17_loaded_callback_deletes_behind :
  forall c r id, In id (snd (put_loaded c r)) -> id <= fst r.
Proof. exact put_loaded_deletes_behind_pf. Qed.
Theorem C17_loaded_callback_cache :
  forall c r, accepts c r = true ->
    fst (put_loaded c r) = fst (check_and_put c r) /\
    forall id, In id (snd (check_and_put c r)) -> id <= fst r -> In id (snd (put_loaded c r)).
Proof. exact put_loaded_cache_pf. Qed.

(* After a load over ANY warm cache - ids pairwise different, nothing else is asked of it: it may lag behind the storage, its
   ranges need not even be disjoint - for every stored set of uint64 ids: the load ends, it has shown every record once, every
   record left in storage describes the cached region of its id, and every cached region that had a record still has one, of
   exactly the cached version. (Before dc3cb19 the second half was FALSE: C17_lagging_cache_eager_callback_refuted.)
   This was `C17_warm_load_todo`; the statement gained the hypothesis that ids are below 2^64 (a record with a larger id cannot
   exist and would never be read) and lost `disjoint c0`, which is not needed. *)
Theorem C17_warm_load :
  forall (m : amap rv) (c0 : cache), sorted_from 0 m -> (forall k v, In (k, v) m -> k < two64) -> ids_distinct c0 ->
    let res := page_loop never_fails put_loaded rw_loaded region_limit_min (fuel_for m region_limit0) m 0 region_limit0 O c0 [] in
    fst (fst (fst res)) = RDone /\
    snd (fst (fst res)) = m /\
    (forall id v, lookup (snd (fst res)) id = Some v -> In (id, v) (snd res)) /\
    (forall id v, In (id, v) (snd res) -> lookup m id <> None -> lookup (snd (fst res)) id = Some v).
Proof. exact warm_load_pf. Qed.

(* the lagging cache (region 5 split and its left half merged into region 1 during another leader's term): storage, cache
   and the next full load agree after the warm load; with the callback as it was before dc3cb19 region 5 is served and has
   no record *)
Example C17_lagging_cache :
  let old5 := RV 10 40 1 5 28 in let r1 := RV 10 20 1 6 28 in let r5 := RV 20 40 1 6 28 in
  let ops := [OSaveRegion 5 old5; OSaveRegion 1 r1; OSaveRegion 5 r5; OLoadWarm [(5, old5)]; OLoadRegions] in
  skipn 3 (run run_op sinit ops) = [BCache RDone [(1, r1); (5, r5)] [(1, r1); (5, r5)] [(1, r1); (5, r5)]; BRegions RDone [(1, r1); (5, r5)]].
Proof. exact lagging_cache_example. Qed.
Example C17_lagging_cache_eager_callback_refuted :
  let old5 := RV 10 40 1 5 28 in let r1 := RV 10 20 1 6 28 in let r5 := RV 20 40 1 6 28 in
  let m := [(1, r1); (5, r5)] in
  let res := page_loop never_fails put_loaded_eager rw_loaded region_limit_min (fuel_for m region_limit0) m 0 region_limit0 O [(5, old5)] [] in
  fst (fst (fst res)) = RDone /\ snd (fst res) = [(1, r1)] /\ find_id (snd res) 5 = Some r5.
Proof. exact lagging_cache_eager_witness. Qed.

Example C17_reelected_leader :
  let r1 := RV 0 100 5 5 30 in let r1' := RV 0 100 6 5 30 in let r2 := RV 100 0 5 5 30 in
  let ops := [OSaveRegion 1 r1; OSaveRegion 2 r2; OSaveRegionF 1 r1' false; OLoadWarm [(1, r1'); (2, r2)]] in
  last (run run_op sinit ops) BUnit = BCache RDone [(1, r1); (2, r2)] [(1, r1'); (2, r2)] [(1, r1'); (2, r2)].
Proof. exact reelected_leader_example. Qed.

(* non-vacuity, and the former refutation witnesses, which now behave *)
Example C17_nonvacuous :
  let ops := [OSaveStore 3 30; OSaveStore 1 10; OSaveWeight 1 2000 500; OSaveStore 2 20; ODeleteStore 2; OLoadStores] in
  ops_ok ops /\
  last (run run_op sinit ops) BUnit = BStores RDone [(1, 10, 2000, 500); (3, 30, 1000, 1000)].
Proof. split; [cbn; repeat split; vm_compute; discriminate|vm_compute; reflexivity]. Qed.

Example C17_max_id_is_loaded :
  last (run run_op sinit [OSaveStore 1 10; OSaveStore max_id 99; OLoadStores]) BUnit
    = BStores RDone [(1, 10, 1000, 1000); (max_id, 99, 1000, 1000)] /\
  snd (run_op (run_state run_op sinit [OSaveRegion max_id (RV 1 2 1 1 10)]) OLoadIntoCache)
    = BCache RDone [(max_id, RV 1 2 1 1 10)] [(max_id, RV 1 2 1 1 10)] [(max_id, RV 1 2 1 1 10)].
Proof. split; vm_compute; reflexivity. Qed.

Example C17_delete_drops_pending_save :
  let ops := [OSaveRegion 5 (RV 1 2 1 1 10); ODeleteRegion 5] in
  ops_ok ops /\ plain_ops ops = true /\ ldb (run_state run_op srs (ops ++ [OFlush])) = [].
Proof. split; [cbn; repeat split; vm_compute; discriminate|]. split; reflexivity. Qed.

Example C17_batch_nonvacuous :
  let ops := [OSaveRegion 7 (RV 1 2 1 1 10); OSaveRegion 5 (RV 2 3 1 1 10); OFlush; ODeleteRegion 7; OSaveRegion 9 (RV 3 0 1 1 10)] in
  ops_ok ops /\ plain_ops ops = true /\
  map fst (ldb (run_state run_op srs (ops ++ [OFlush]))) = [5; 9].
Proof. split; [cbn; repeat split; vm_compute; discriminate|]. split; [reflexivity|vm_compute; reflexivity]. Qed.

Print Assumptions C17_pad_covers_uint64.
Print Assumptions C17_paging_exact.
Print Assumptions C17_region_limit_chain.
Print Assumptions C17_load_returns_each_saved_once.
Print Assumptions C17_load_regions_direct.
Print Assumptions C17_flush_makes_durable.
Print Assumptions C17_crash_keeps_flushed.
Print Assumptions C17_load_once_retry.
Print Assumptions C17_crash_in_flush_atomic.
Print Assumptions C17_load_prunes_to_cache.
Print Assumptions C17_stale_record_is_rewritten.
Print Assumptions C17_loaded_callback_cold.
Print Assumptions C17_loaded_callback_deletes_behind.
Print Assumptions C17_loaded_callback_cache.
Print Assumptions C17_paging_exact_with_rewrite.
Print Assumptions C17_warm_load.
Print Assumptions C17_prune_operation.
