(* C11 — Scatter and balance moves preserve a region's replica count and roles.
   Statements only; proofs in proof/C11_ScatterProof.v, obligations on the regenerated tables in proof/C11_Tables.v,
   step-semantics facts in lib/C10_StepFacts.v.

   Quantification: every cluster (any stores, any combination of the predicates the filters read, any labels),
   every counter state of the scatterer (= every history of earlier decisions, in every group), every region,
   every placement-safeguard outcome (`guard` is an arbitrary function) and EVERY order in which the peers are
   processed (Go map iteration), every tie-break among equally loaded candidates (the model is set-valued). *)
From Coq Require Import Permutation.
From PDV Require Import lib.C10_Cluster lib.C10_StepFacts gen.Gen_C11 model.C11_Scatter model.C11_Plan proof.C11_Tables proof.C11_Pins proof.C11_ScatterProof.
From PDV Require model.C08_Steps model.C08_Builder proof.C08_PlanProof.
Local Open Scope list_scope.
Local Open Scope Z_scope.

(* 1. scatter keeps every peer: over all histories (counter states), all groups, all processing orders of the
   ordinary and of the tiflash peers and all tie-breaks, the target placement has the same number of peers of
   each role as the region, on pairwise distinct stores, and no peer ever falls back onto a store selected for
   another peer.  (Suspected defect S12 made this false; it is proved for the code after the fix
   "region scatter must not pick a store that holds another peer of the region".) *)
Theorem C11_scatter_preserves_roles :
  forall stores st grp guard rule_ok r o,
    NoDup (stores_of (peers r)) ->
    In o (scatter_outcomes stores st grp guard rule_ok r) ->
    o_clash o = false
    /\ Permutation (map snd (o_targets o)) (map p_role (peers r))
    /\ NoDup (map fst (o_targets o))
    /\ List.length (o_targets o) = List.length (peers r).
Proof. exact scatter_preserves_roles. Qed.

(* per processing order: a clash-free run carries the roles of the peers, in the order processed, on distinct stores *)
Theorem C11_scatter_run_keeps_every_peer :
  forall stores grp guard rs e g order out,
    In out (run_order stores grp guard rs e g (Acc [] [] false) order) ->
    a_clash out = false ->
    map snd (a_targets out) = map p_role order /\ NoDup (map fst (a_targets out))
    /\ List.length (a_targets out) = List.length order.
Proof. exact clash_free_keeps_every_peer. Qed.

(* 1b. the builder's multi-peer scatter plan: whenever C08's verified checker accepts the steps of an operator for the goal
   of a scatter outcome (what model/C11_Plan.v evaluates on EVERY operator the real Scatter returns), the steps execute on the
   region with every step safe and finished at its turn, the leader never removed or demoted, one peer per store, the voter
   floor kept, and END IN EXACTLY the outcome's target placement and leader.  (Instance of C08's plan_ok_sound.)  Together with
   C11_scatter_preserves_roles: the executed operator keeps the number of peers of every role. *)
Theorem C11_scatter_plan_executes :
  forall r o r8 ss,
    C08_Builder.plan_ok (goal_of_outcome r o) r8 ss = true ->
    exists trs rf, C08_PlanProof.exec_plan r8 ss = Some (trs, rf)
                   /\ Forall (C08_PlanProof.transition_ok (goal_of_outcome r o)) trs
                   /\ C08_PlanProof.final_state_ok (goal_of_outcome r o) rf.
Proof. intros r o r8 ss. apply C08_PlanProof.plan_ok_sound_pf. Qed.

(* 2. peers move only to up stores: a scattered peer stays on its store or goes to a store that is up, not down,
   connected, not busy, passes the engine filter and was not selected for another peer *)
Theorem C11_scatter_target_good :
  forall stores grp guard rs e g a p c,
    In c (peer_choices stores grp guard rs e g a p) ->
    c = p_store p \/ (~ In c (a_selected a) /\ exists s, In s stores /\ sid s = c /\ up_store s /\ e s = true).
Proof. exact scatter_target_good. Qed.

(* balance-region, shuffle-region, hot-region (move peer), shuffle-hot-region, scatter-range: the StoreStateFilter literal
   of each is {MoveRegion} (regenerated, proof/C11_Tables.v move_flags_ok); every admissible target is an up store that
   holds no peer of the region, so source and target differ, and it is not refused by the scheduler's special-use filter *)
Theorem C11_move_target_good :
  forall flags su stores r dst,
    In flags [Gen_C11.balance_region_target_flags; Gen_C11.shuffle_region_flags; Gen_C11.hot_move_flags; Gen_C11.shuffle_hot_flags] ->
    In dst (move_targets flags su stores r) ->
    In dst stores /\ ~ In (sid dst) (stores_of (peers r)) /\ up_store dst /\ su dst = false
    /\ (forall src, In src (stores_of (peers r)) -> src <> sid dst).
Proof.
  intros flags su stores r dst Hf. apply move_target_good.
  destruct move_flags_ok as (E1 & E2 & _ & E3 & E4). cbn in Hf. intuition congruence.
Qed.

(* "may only remove candidates": the unmodelled filters (placement safeguard, score / load tolerance filters, shouldBalance,
   random picks) act in conjunction with the modelled ones, so whatever survives them is an admissible target of the model *)
Theorem C11_more_filters_only_remove :
  forall flags su stores r (extra : store -> bool) dst,
    In dst (filter (fun s => move_pred flags su r s && extra s) stores) -> In dst (move_targets flags su stores r).
Proof. exact more_filters_only_remove. Qed.

(* moving the peer of `src` to such a store keeps the number of peers of every role, one peer per store, src <> dst *)
Theorem C11_move_preserves_roles :
  forall ps src dst id p,
    NoDup (stores_of ps) -> peer_on ps src = Some p -> ~ In dst (stores_of ps) ->
    roles_preserved ps (move_result ps src dst id) = true
    /\ NoDup (stores_of (move_result ps src dst id))
    /\ List.length (move_result ps src dst id) = List.length ps
    /\ src <> dst.
Proof. exact move_preserves_roles. Qed.

(* 3. leaders only to voters on stores that accept leaders (balance-leader, shuffle-leader, evict-leader, label,
   hot-region transfer-leader, scatter-range) *)
Theorem C11_leader_target_good :
  forall flags stores r dst,
    In flags [Gen_C11.balance_leader_flags; Gen_C11.shuffle_leader_flags; Gen_C11.evict_leader_flags; Gen_C11.label_flags; Gen_C11.hot_leader_flags] ->
    In dst (leader_targets flags stores r) ->
    (exists p, In p (peers r) /\ p_store p = sid dst /\ is_learner p = false)
    /\ sid dst <> leader_store r /\ up_store dst /\ s_pause dst = false /\ s_reject dst = false.
Proof.
  intros flags stores r dst Hf. apply leader_target_good.
  destruct leader_flags_ok as (E1 & E2 & E3 & E4 & E5). cbn in Hf. intuition congruence.
Qed.

(* grant-leader applies no store filter (forced transfer): the new leader is still a voter of the region on another
   store; that the store accepts leaders does NOT hold (finding C11:grant-leader:leader-to-store-rejecting-leaders) *)
Theorem C11_forced_leader_target :
  forall stores r dst, In dst (leader_targets [] stores r) ->
    (exists p, In p (peers r) /\ p_store p = sid dst /\ is_learner p = false) /\ sid dst <> leader_store r.
Proof. exact forced_leader_target. Qed.

(* 4. at most one peer per store is an invariant of every step sequence TiKV accepts (used by the monitor on
   every operator the implementation returned) *)
Theorem C11_one_peer_per_store :
  forall xs s tr, run_steps s xs = Some tr -> NoDup (stores_of (rs_peers s)) -> Forall (fun s' => NoDup (stores_of (rs_peers s'))) tr.
Proof. exact run_steps_nodup. Qed.

(* the scatter leader: whenever some target qualifies (store without engine label, target peer not a learner, the store passes the
   leaderTarget row of the regenerated StoreStateFilter table, a leader / voter rule selects it), the store chosen for the leader
   is such a target - up, not down, connected, not busy, leader transfer not paused (evict-leader), no reject-leader label.
   (Code after the fixes f715d6e and 940882c; the operator is built with a forced leader, which skips the builder's own checks.)
   If NO target qualifies the leader stays where it is when its peer stays. *)
Theorem C11_scatter_leader_accepts_leaders :
  forall stores grp ldr cur rule_ok targets l,
    In l (leader_choices stores grp ldr cur rule_ok targets) ->
    leader_candidates stores rule_ok targets <> [] ->
    exists ro s, In (l, ro) targets /\ ro <> Learner /\ find_store stores l = Some s /\ lv_empty (engine_of s) = true
                 /\ up_store s /\ s_pause s = false /\ s_reject s = false /\ rule_ok l = true.
Proof. exact scatter_leader_accepts_leaders. Qed.

Example C11_leader_reject_regression :
  leader_choices [Store 1 SUp false false false false false false false false false true [];
                  Store 2 SUp false false false false false false false false false false [];
                  Store 3 SUp false false false false false false false false true false []] 1 [] 1 (fun _ => true)
                 [(1, Voter); (2, Voter); (3, Voter)] = [2].
Proof. exact leader_reject_regression. Qed.

(* regression / non-vacuity: the S12 history (counters {1:1, 3:1}, region on 1,2,3) now keeps all three peers *)
Example C11_s12_regression :
  map a_targets (run_order s12_stores 1 (fun _ _ => true) [1; 2; 3] is_ordinary s12_counters (Acc [] [] false) s12_peers)
    = [[(1, Voter); (2, Voter); (3, Voter)]].
Proof. vm_compute. reflexivity. Qed.

Print Assumptions C11_scatter_preserves_roles.
Print Assumptions C11_scatter_run_keeps_every_peer.
Print Assumptions C11_scatter_plan_executes.
Print Assumptions C11_scatter_target_good.
Print Assumptions C11_move_target_good.
Print Assumptions C11_move_preserves_roles.
Print Assumptions C11_more_filters_only_remove.
Print Assumptions C11_leader_target_good.
Print Assumptions C11_forced_leader_target.
Print Assumptions C11_one_peer_per_store.
Print Assumptions C11_scatter_leader_accepts_leaders.
