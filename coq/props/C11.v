(* C11 — Scatter and balance moves preserve a region's replica count and roles.
   Statements only; proofs in proof/C11_ScatterProof.v, obligations on the regenerated tables in proof/C11_Tables.v,
   step-semantics facts in lib/C10_StepFacts.v.

   Quantification: every cluster (any stores, any combination of the predicates the filters read, any labels),
   every counter state of the scatterer (= every history of earlier decisions, in every group), every region,
   every placement-safeguard outcome (`guard` is an arbitrary function) and EVERY order in which the peers are
   processed (Go map iteration), every tie-break among equally loaded candidates (the model is set-valued). *)
From Coq Require Import Permutation.
From PDV Require Import lib.C10_Cluster lib.C10_StepFacts gen.Gen_C11 model.C11_Scatter proof.C11_Tables proof.C11_ScatterProof.
Local Open Scope list_scope.
Local Open Scope Z_scope.

(* 1. scatter keeps every peer (same number of peers of each role, one target store per peer).
   FALSE on the unchanged tree (suspected defect S12, replayed by the driver against the real RegionScatterer): *)
Definition C11_scatter_preserves_roles_full : Prop :=
  forall stores grp guard rs e g order out,
    NoDup (stores_of order) ->
    In out (run_order stores grp guard false rs e g (Acc [] [] false) order) ->
    List.length (a_targets out) = List.length order.

(* witness: counters of the group {store 1: 1, store 3: 1}, three healthy stores, region on 1,2,3: targets {2,3} *)
Theorem C11_scatter_preserves_roles_refuted : ~ C11_scatter_preserves_roles_full.
Proof.
  intros H.
  assert (X : List.length (a_targets (Acc [(2, Voter); (3, Voter)] [3; 2; 2] true)) = List.length s12_peers).
  { apply (H s12_stores 1 (fun _ _ => true) [1; 2; 3] is_ordinary s12_counters s12_peers).
    - cbn. repeat constructor; cbn; intuition discriminate.
    - rewrite s12_witness. left; reflexivity. }
  cbn in X. discriminate.
Qed.

(* true for every run in which no peer falls back onto a store that was already selected for another peer
   (the excluded class is exactly `a_clash out = true`): the targets then carry the roles of the peers, in the
   order processed, on pairwise distinct stores *)
Theorem C11_scatter_preserves_roles_partial :
  forall stores grp guard fixed rs e g order out,
    In out (run_order stores grp guard fixed rs e g (Acc [] [] false) order) ->
    a_clash out = false ->
    map snd (a_targets out) = map p_role order /\ NoDup (map fst (a_targets out))
    /\ List.length (a_targets out) = List.length order.
Proof. exact clash_free_keeps_every_peer. Qed.

(* and true without exception for the repaired selection rule (candidates exclude the stores of the region's
   other peers, fixes/C11_scatter_exclude_region_stores.patch): over all histories, all groups, all processing
   orders of the ordinary and of the tiflash peers, all tie-breaks *)
Theorem C11_scatter_fixed_preserves_roles :
  forall stores st grp guard r o,
    NoDup (stores_of (peers r)) ->
    In o (scatter_outcomes true stores st grp guard r) ->
    o_clash o = false
    /\ Permutation (map snd (o_targets o)) (map p_role (peers r))
    /\ NoDup (map fst (o_targets o))
    /\ List.length (o_targets o) = List.length (peers r).
Proof. exact scatter_fixed_preserves_roles. Qed.

(* 2. peers move only to up stores: a scattered peer stays on its store or goes to a store that is up, not down,
   connected, not busy, passes the engine filter and was not selected for another peer *)
Theorem C11_scatter_target_good :
  forall stores grp guard fixed rs e g a p c,
    In c (peer_choices stores grp guard fixed rs e g a p) ->
    c = p_store p \/ (~ In c (a_selected a) /\ exists s, In s stores /\ sid s = c /\ up_store s /\ e s = true).
Proof. exact scatter_target_good. Qed.

(* balance-region / shuffle-region: every admissible target is an up store that holds no peer of the region, so
   source and target differ *)
Theorem C11_move_target_good :
  forall stores r dst,
    In dst (move_targets Gen_C11.balance_region_target_flags stores r) ->
    In dst stores /\ ~ In (sid dst) (stores_of (peers r)) /\ up_store dst /\ special_use dst = false
    /\ (forall src, In src (stores_of (peers r)) -> src <> sid dst).
Proof. exact move_target_good. Qed.

(* moving the peer of `src` to such a store keeps the number of peers of every role, one peer per store, src <> dst *)
Theorem C11_move_preserves_roles :
  forall ps src dst id p,
    NoDup (stores_of ps) -> peer_on ps src = Some p -> ~ In dst (stores_of ps) ->
    roles_preserved ps (move_result ps src dst id) = true
    /\ NoDup (stores_of (move_result ps src dst id))
    /\ List.length (move_result ps src dst id) = List.length ps
    /\ src <> dst.
Proof. exact move_preserves_roles. Qed.

(* 3. leaders only to voters on stores that accept leaders (balance-leader, shuffle-leader, evict-leader, label) *)
Theorem C11_leader_target_good :
  forall stores r dst,
    In dst (leader_targets Gen_C11.balance_leader_flags stores r) ->
    (exists p, In p (peers r) /\ p_store p = sid dst /\ is_learner p = false)
    /\ sid dst <> leader_store r /\ up_store dst /\ s_pause dst = false /\ s_reject dst = false.
Proof. exact leader_target_good. Qed.

(* 4. at most one peer per store is an invariant of every step sequence TiKV accepts (used by the monitor on
   every operator the implementation returned) *)
Theorem C11_one_peer_per_store :
  forall xs s tr, run_steps s xs = Some tr -> NoDup (stores_of (rs_peers s)) -> Forall (fun s' => NoDup (stores_of (rs_peers s'))) tr.
Proof. exact run_steps_nodup. Qed.

(* the scatter leader clause is NOT provable for the unchanged code: selectAvailableLeaderStores looks only at the
   leader counters and at the engine label, and the operator is built with EnableForceTargetLeader; the driver
   exhibits leaders moved to reject-leader stores (finding C11:scatter:leader-to-store-rejecting-leaders) *)
Definition C11_scatter_leader_accepts_leaders_full : Prop :=
  forall stores grp ldr targets l,
    In l (leader_choices stores grp ldr targets) -> l <> 0 ->
    exists s, find_store stores l = Some s /\ s_reject s = false.
Theorem C11_scatter_leader_accepts_leaders_refuted : ~ C11_scatter_leader_accepts_leaders_full.
Proof.
  intros H.
  set (s := Store 1 SUp false false false false false false false false false true []).
  destruct (H [s] 1 [] [(1, Voter)] 1) as (x & Hx & Hr).
  - vm_compute. left; reflexivity.
  - discriminate.
  - vm_compute in Hx. inversion Hx; subst. discriminate.
Qed.

(* non-vacuity: the S12 input loses a replica under the code as it is and keeps all three under the repaired rule *)
Example C11_nonvacuous :
  map a_targets (run_order s12_stores 1 (fun _ _ => true) false [1; 2; 3] is_ordinary s12_counters (Acc [] [] false) s12_peers)
    = [[(2, Voter); (3, Voter)]]
  /\ map a_targets (run_order s12_stores 1 (fun _ _ => true) true [1; 2; 3] is_ordinary s12_counters (Acc [] [] false) s12_peers)
    = [[(1, Voter); (2, Voter); (3, Voter)]].
Proof. split; vm_compute; reflexivity. Qed.

Print Assumptions C11_scatter_preserves_roles_refuted.
Print Assumptions C11_scatter_preserves_roles_partial.
Print Assumptions C11_scatter_fixed_preserves_roles.
Print Assumptions C11_scatter_target_good.
Print Assumptions C11_move_target_good.
Print Assumptions C11_move_preserves_roles.
Print Assumptions C11_leader_target_good.
Print Assumptions C11_one_peer_per_store.
Print Assumptions C11_scatter_leader_accepts_leaders_refuted.
