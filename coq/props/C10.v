(* C10 — Replica repair never targets bad stores nor shrinks healthy replication.
   Statements only; proofs in proof/C10_CheckerProof.v, proof/C10_Steps.v, obligations on the regenerated
   tables in proof/C10_Tables.v.

   Quantification: `inp` ranges over ALL inputs of the checkers: any list of stores with any combination of
   the predicates the filters read (state, down, disconnected, busy, low space, limits, snapshots, pending,
   leader pause / reject) and any labels; any region (peers, roles, leader, down and pending lists, also
   malformed ones); any max-replicas, location labels, isolation level, switches; any placement-rule fit.
   The model is set-valued: `model_check inp` lists every answer the code may give (a float score, a map
   order or rand decide among them); a theorem about every element is a theorem about whatever is chosen. *)
From PDV Require Import lib.C10_Cluster lib.C10_StepFacts gen.Gen_C10 model.C10_Checker proof.C10_Tables proof.C10_Pins proof.C10_Steps proof.C10_CheckerProof.
Local Open Scope list_scope.
Local Open Scope Z_scope.

(* 1. SelectStoreToAdd: every store it may return is known, up (neither offline nor tombstone), not down,
   connected, not busy, not low on space, holds no peer of the region, is not reserved for special use,
   satisfies the isolation level against the co-location stores and the rule's label constraints, and is
   within add / snapshot / pending limits.  Each clause is a membership fact about the generated table. *)
Theorem C10_add_target_good :
  forall stg stores r coloc extra s,
    In s (select_to_add stg stores r coloc extra) -> good_target stg stores r coloc extra s.
Proof. exact add_target_good. Qed.

(* ... and every operator either checker may propose adds peers only on such stores *)
Theorem C10_checker_targets_good :
  forall inp st t,
    (exists lrn, In (Some (st, AAdd t lrn)) (model_check inp)) \/
    (exists old lrn, In (Some (st, AReplace old t lrn)) (model_check inp)) ->
    exists stg coloc extra s, sid s = t /\ good_target stg (i_stores inp) (i_region inp) coloc extra s.
Proof. exact checker_targets_good. Qed.

(* 2. the peer count is lowered only when the region has more voters than configured ... *)
Theorem C10_replica_removes_only_surplus :
  forall inp st s, In (Some (st, ARemove s)) (replica_check inp) -> max_replicas (i_cfg inp) < voter_count (i_region inp).
Proof. exact replica_removes_only_surplus. Qed.

(* ... or all rules are satisfied and the peer is an orphan *)
Theorem C10_rule_removes_only_orphans :
  forall inp st s, In (Some (st, ARemove s)) (rule_check inp) ->
    (exists o rest, fit_orphans (i_fit inp) = o :: rest /\ p_store o = s) /\ forallb rf_satisfied (fit_rules (i_fit inp)) = true.
Proof. exact rule_removes_only_orphans. Qed.

(* ... an orphan in earnest: when the fit handed to the checker is a partition of the region's peers (fit_wf - the monitor evaluates it
   on every fit read from the real FitRegion, signature C10:fit-is-not-a-partition-of-the-peers) no rule holds the removed peer *)
Theorem C10_rule_removal_not_held :
  forall inp st s, fit_wf (i_region inp) (i_fit inp) = true -> In (Some (st, ARemove s)) (rule_check inp) ->
    exists o, In o (fit_orphans (i_fit inp)) /\ p_store o = s /\
              forall rf, In rf (fit_rules (i_fit inp)) -> ~ In (p_id o) (map p_id (rf_peers rf)).
Proof. exact rule_removal_not_held. Qed.

(* ... and fit_wf is what the check establishes: on every rule-checker case on which the monitor is silent, a removal the model admits
   takes a peer no rule holds *)
Theorem C10_monitor_silent_removal_not_held :
  forall inp impl st s, monitor (inp, impl) = None -> fit_judged inp = true -> In (Some (st, ARemove s)) (rule_check inp) ->
    exists o, In o (fit_orphans (i_fit inp)) /\ p_store o = s /\
              forall rf, In rf (fit_rules (i_fit inp)) -> ~ In (p_id o) (map p_id (rf_peers rf)).
Proof. exact monitor_silent_removal_not_held. Qed.

(* ... and the same through CheckerController.CheckRegion (joint-state checker and learner checker in front) *)
Theorem C10_controller_removes_only_justified :
  forall inp st s, In (Some (st, ARemove s)) (controller_check inp) ->
    max_replicas (i_cfg inp) < voter_count (i_region inp)
    \/ ((exists o rest, fit_orphans (i_fit inp) = o :: rest /\ p_store o = s) /\ forallb rf_satisfied (fit_rules (i_fit inp)) = true).
Proof. exact controller_removes_only_justified. Qed.

(* CheckRegion as a whole: an operator comes from the joint-state checker, or (that one admitting none) from the repair checkers,
   or - only when they too allow none - from the merge checker *)
Theorem C10_controller_origin :
  forall inp x, In (Some x) (controller_check inp) ->
    In (Some x) (joint_stage inp)
    \/ (In None (joint_stage inp) /\ (In (Some x) (front_check inp) \/ (In None (front_check inp) /\ In (Some x) (merge_stage inp)))).
Proof. exact controller_origin. Qed.

(* ... and the merge checker proposes a merge only when it is active, the region is healthy (no down / pending peer, no learner
   without placement rules), fully replicated, not hot, the chosen neighbour is mergeable (adjacent keys, no rule boundary), healthy,
   fully replicated, not hot, not larger than 500, and neither region is in a joint state *)
Theorem C10_merge_only_when_settled :
  forall inp o, In (Some (StMerge, o)) (merge_stage inp) ->
    me_on (i_menv inp) = true /\ region_healthy inp = true /\ region_replicated inp = true /\ me_hot (i_menv inp) = false
    /\ exists t, merge_target inp = Some t /\ merge_target_ok inp t = true /\ n_size t <= max_target_region_size
       /\ in_joint (peers (i_region inp)) = false /\ in_joint (n_peers t) = false.
Proof. exact merge_only_when_settled. Qed.

(* 3. a replacement adds the new peer before it removes the old one.
   (a) the verified checker run on every operator of the implementation: a step list in which every prefix
       adds at least as many peers as it removes never takes ANY region (with at most one peer per store) on
       which TiKV accepts the steps below its initial peer count; *)
Theorem C10_balanced_plan_never_dips :
  forall xs s tr, run_steps s xs = Some tr -> NoDup (stores_of (rs_peers s)) -> balanced_prefixes xs = true ->
    Forall (fun s' => (List.length (rs_peers s) <= List.length (rs_peers s'))%nat) tr.
Proof. exact balanced_never_dips. Qed.

Theorem C10_one_peer_per_store_invariant :
  forall xs s tr, run_steps s xs = Some tr -> NoDup (stores_of (rs_peers s)) -> Forall (fun s' => NoDup (stores_of (rs_peers s'))) tr.
Proof. exact run_steps_nodup. Qed.

(* (b) the plan the builder gives to a replacement (model: plan_of; the implementation's steps are compared with it step by
       step in every case): add-before-remove at full strength, with and without joint consensus and whatever the kinds of the
       old and the new peer (code after the builder fix "adds the replacement peer before it removes the replaced one also
       when their kinds differ"; before it a learner replaced by a voter without joint consensus was removed first) *)
Theorem C10_replace_is_add_then_remove :
  forall joint r old new lrn id pl, plan_of joint r (AReplace old new lrn) id = Some pl -> balanced_prefixes pl = true.
Proof. exact plan_replace_balanced. Qed.

Example C10_replace_mixed_regression :
  let r := Region [Peer 1 1 Voter; Peer 2 2 Learner; Peer 3 3 Voter] (Some (Peer 1 1 Voter)) [] [] in
  plan_of false r (AReplace 2 9 false) 100 = Some [AddLearnerS 9 100; PromoteLearnerS 9 100; RemovePeerS 2].
Proof. exact plan_replace_mixed_regression. Qed.

(* 4. fewer peers than max-replicas and SelectStoreToAdd has a candidate (a store that passes every filter
   of it, in particular is not excluded by the isolation level): an operator is proposed, whatever the
   earlier stages of the cascade do *)
Theorem C10_repair_proposed_when_possible :
  forall inp, i_entry inp = EReplica -> repair_required inp = true ->
    (forall s, In s (i_stores inp) -> sid s <> 0) ->
    ~ In None (replica_check inp) /\ replica_check inp <> [].
Proof. exact repair_proposed_when_possible. Qed.

Theorem C10_rule_repair_proposed_when_possible :
  forall inp, i_entry inp = ERule -> repair_required inp = true ->
    (forall s, In s (i_stores inp) -> sid s <> 0) ->
    ~ In None (rule_check inp).
Proof. exact rule_repair_proposed_when_possible. Qed.

(* non-vacuity: the hypotheses of 4 hold on a concrete cluster and the model demands "add a peer on store 4"
   (stores 1 and 3 share a zone with... store 1 holds a peer; store 3 is in an occupied zone at isolation level zone) *)
Example C10_nonvacuous :
  repair_required ex_input = true /\ replica_check ex_input = [Some (StMakeUp, AAdd 4 false)].
Proof. exact repair_example. Qed.

Print Assumptions C10_add_target_good.
Print Assumptions C10_checker_targets_good.
Print Assumptions C10_replica_removes_only_surplus.
Print Assumptions C10_rule_removes_only_orphans.
Print Assumptions C10_rule_removal_not_held.
Print Assumptions C10_monitor_silent_removal_not_held.
Print Assumptions C10_controller_removes_only_justified.
Print Assumptions C10_controller_origin.
Print Assumptions C10_merge_only_when_settled.
Print Assumptions C10_balanced_plan_never_dips.
Print Assumptions C10_one_peer_per_store_invariant.
Print Assumptions C10_replace_is_add_then_remove.
Print Assumptions C10_repair_proposed_when_possible.
Print Assumptions C10_rule_repair_proposed_when_possible.
